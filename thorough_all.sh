#!/bin/bash
# run every thorough check in turn, report exit code and time (used through `vp run`)
for p in ${THOROUGH_ORDER:-C11 C05 C20 C01 C03 C04 C09 C17 C19 C18 C10 C12 C06 C13 C14 C15 C16 C08 C07 C02}; do
  s=$(date +%s); out=$(./check $p --tier thorough 2>&1); rc=$?; e=$(date +%s)
  echo "$p thorough exit=$rc time=$((e-s))s :: $(echo "$out" | tail -1 | cut -c1-200)"
  echo "$out" | grep -m3 "reason:\|TOOL-ERROR" | cut -c1-300
done
