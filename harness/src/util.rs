//! Shared helpers: JSON <-> machine words, deterministic PRNG, fixed-address buffers with guard
//! pages, child-process isolation.

use serde_json::{json, Value};
use std::io::{BufRead, BufReader, Read, Write};
use std::os::unix::io::FromRawFd;

/// 64-bit value <- JSON array of 8 bytes (little-endian), as TLC prints words.
pub fn word(v: &Value) -> u64 {
    let a = v.as_array().expect("word: array");
    let mut x = 0u64;
    for (i, b) in a.iter().enumerate().take(8) {
        x |= (b.as_u64().expect("byte") & 0xff) << (8 * i);
    }
    x
}

pub fn word_json(x: u64) -> Value {
    Value::Array((0..8).map(|i| json!((x >> (8 * i)) & 0xff)).collect())
}

pub fn bytes(v: &Value) -> Vec<u8> {
    match v {
        Value::Array(a) => a.iter().map(|b| b.as_u64().expect("byte") as u8).collect(),
        Value::Null => vec![],
        // TLC prints an empty sequence nested in a record as [] but a top-level one as {}
        Value::Object(o) if o.is_empty() => vec![],
        _ => panic!("bytes: unexpected {v}"),
    }
}

pub fn bytes_json(b: &[u8]) -> Value {
    Value::Array(b.iter().map(|x| json!(*x)).collect())
}

pub fn arr(v: &Value) -> Vec<Value> {
    match v {
        Value::Array(a) => a.clone(),
        Value::Null => vec![],
        Value::Object(o) if o.is_empty() => vec![],
        _ => panic!("arr: unexpected {v}"),
    }
}

/// Program bytes from run-length segments `[[n, [opc, dst, src, off, imm]], ...]`.
pub fn prog_bytes(segs: &Value) -> Vec<u8> {
    let mut out = Vec::new();
    for s in arr(segs) {
        let n = s[0].as_u64().unwrap() as usize;
        let i = &s[1];
        let slot = encode_slot(
            i[0].as_u64().unwrap() as u8,
            i[1].as_u64().unwrap() as u8,
            i[2].as_u64().unwrap() as u8,
            i[3].as_i64().unwrap() as i16,
            i[4].as_i64().unwrap() as i32,
        );
        for _ in 0..n {
            out.extend_from_slice(&slot);
        }
    }
    out
}

/// The harness's own encoder of an instruction slot (independent of rbpf's).
pub fn encode_slot(opc: u8, dst: u8, src: u8, off: i16, imm: i32) -> [u8; 8] {
    let o = off.to_le_bytes();
    let m = imm.to_le_bytes();
    [opc, (src << 4) | (dst & 0xf), o[0], o[1], m[0], m[1], m[2], m[3]]
}

/// splitmix64: deterministic, seedable, no dependency.
#[derive(Clone)]
pub struct Rng(pub u64);
impl Rng {
    pub fn new(seed: u64) -> Self {
        Rng(seed.wrapping_mul(0x9e3779b97f4a7c15) ^ 0xd1b54a32d192ed03)
    }
    pub fn next(&mut self) -> u64 {
        self.0 = self.0.wrapping_add(0x9e3779b97f4a7c15);
        let mut z = self.0;
        z = (z ^ (z >> 30)).wrapping_mul(0xbf58476d1ce4e5b9);
        z = (z ^ (z >> 27)).wrapping_mul(0x94d049bb133111eb);
        z ^ (z >> 31)
    }
    pub fn below(&mut self, n: u64) -> u64 {
        if n == 0 {
            0
        } else {
            self.next() % n
        }
    }
    pub fn pick<'a, T>(&mut self, xs: &'a [T]) -> &'a T {
        &xs[self.below(xs.len() as u64) as usize]
    }
    pub fn chance(&mut self, num: u64, den: u64) -> bool {
        self.below(den) < num
    }
}

const PAGE: u64 = 4096;

/// A buffer mapped at a caller-chosen address, with nothing mapped in the pages around it
/// (an access one byte outside the pages it occupies faults).
pub struct FixedBuf {
    pub base: u64,
    pub len: usize,
    map_start: u64,
    map_len: usize,
}

impl FixedBuf {
    pub fn new(base: u64, data: &[u8]) -> Result<FixedBuf, String> {
        let len = data.len();
        if len == 0 {
            return Ok(FixedBuf { base, len, map_start: 0, map_len: 0 });
        }
        let map_start = base & !(PAGE - 1);
        let map_end = (base + len as u64 + PAGE - 1) & !(PAGE - 1);
        let map_len = (map_end - map_start) as usize;
        let p = unsafe {
            libc::mmap(
                map_start as *mut libc::c_void,
                map_len,
                libc::PROT_READ | libc::PROT_WRITE,
                libc::MAP_PRIVATE | libc::MAP_ANONYMOUS | libc::MAP_FIXED_NOREPLACE,
                -1,
                0,
            )
        };
        if p == libc::MAP_FAILED || p as u64 != map_start {
            // the pages are already mapped: by an earlier buffer of the same case that overlaps
            // this one (nested registered ranges).  Only the bytes are written; the earlier
            // buffer owns the mapping (and its canary check no longer applies).
            let probe = unsafe { libc::msync(map_start as *mut libc::c_void, map_len, libc::MS_ASYNC) };
            if probe != 0 {
                return Err(format!("mmap at {map_start:#x} failed"));
            }
            unsafe { std::ptr::copy_nonoverlapping(data.as_ptr(), base as *mut u8, len) };
            return Ok(FixedBuf { base, len, map_start: 0, map_len: 0 });
        }
        // fill the slack of the pages with a canary, then the data
        unsafe {
            std::ptr::write_bytes(map_start as *mut u8, 0xa5, map_len);
            std::ptr::copy_nonoverlapping(data.as_ptr(), base as *mut u8, len);
        }
        Ok(FixedBuf { base, len, map_start, map_len })
    }
    #[allow(clippy::mut_from_ref)]
    pub fn slice(&self) -> &'static mut [u8] {
        unsafe { std::slice::from_raw_parts_mut(self.base as *mut u8, self.len) }
    }
    pub fn read(&self) -> Vec<u8> {
        if self.len == 0 {
            return vec![];
        }
        unsafe { std::slice::from_raw_parts(self.base as *const u8, self.len).to_vec() }
    }
    /// TRUE iff the bytes of the mapped pages outside the buffer still hold the canary.
    /// This buffer was laid over pages owned by an earlier, overlapping buffer.
    pub fn is_overlay(&self) -> bool {
        self.len > 0 && self.map_len == 0
    }
    pub fn slack_intact(&self) -> bool {
        if self.len == 0 || self.map_len == 0 {
            return true;
        }
        let all = unsafe { std::slice::from_raw_parts(self.map_start as *const u8, self.map_len) };
        let lo = (self.base - self.map_start) as usize;
        all[..lo].iter().all(|b| *b == 0xa5) && all[lo + self.len..].iter().all(|b| *b == 0xa5)
    }
}

impl Drop for FixedBuf {
    fn drop(&mut self) {
        if self.map_len > 0 {
            unsafe {
                libc::munmap(self.map_start as *mut libc::c_void, self.map_len);
            }
        }
    }
}

/// Outcome of one job run in a child process.
pub enum ChildResult {
    Done(Value),
    Signal(i32),
    Timeout,
    Exit(i32),
}

/// Run `f` on every job inside forked children.  A child handles jobs in order and sends one JSON
/// line per job through a pipe; when it dies (signal, abort) or stalls, the job it was running
/// gets that outcome and a fresh child continues with the next one.  A crash of the code under
/// test is data, never a tool failure, and cannot contaminate another job.
pub fn run_isolated<J, F>(jobs: &[J], timeout_ms: i32, f: F) -> Vec<ChildResult>
where
    F: Fn(&J) -> Value,
{
    let mut results: Vec<ChildResult> = Vec::with_capacity(jobs.len());
    let mut next = 0usize;
    while next < jobs.len() {
        let mut fds = [0i32; 2];
        assert_eq!(unsafe { libc::pipe(fds.as_mut_ptr()) }, 0);
        std::io::stdout().flush().ok();
        let pid = unsafe { libc::fork() };
        assert!(pid >= 0, "fork failed");
        if pid == 0 {
            // child
            unsafe { libc::close(fds[0]) };
            let mut w = unsafe { std::fs::File::from_raw_fd(fds[1]) };
            for j in &jobs[next..] {
                let v = f(j);
                let mut line = serde_json::to_string(&v).unwrap();
                line.push('\n');
                if w.write_all(line.as_bytes()).is_err() {
                    unsafe { libc::_exit(3) };
                }
            }
            drop(w);
            unsafe { libc::_exit(0) };
        }
        unsafe { libc::close(fds[1]) };
        let rfd = fds[0];
        let mut reader = BufReader::new(unsafe { std::fs::File::from_raw_fd(rfd) });
        let mut timed_out = false;
        loop {
            if next >= jobs.len() {
                break;
            }
            // wait for data with a timeout
            if reader.buffer().is_empty() {
                let mut p = libc::pollfd { fd: rfd, events: libc::POLLIN, revents: 0 };
                let r = unsafe { libc::poll(&mut p, 1, timeout_ms) };
                if r == 0 {
                    timed_out = true;
                    break;
                }
            }
            let mut line = String::new();
            match reader.read_line(&mut line) {
                Ok(0) => break,
                Ok(_) => {
                    if !line.ends_with('\n') {
                        break; // torn line: the child died while writing
                    }
                    match serde_json::from_str::<Value>(&line) {
                        Ok(v) => {
                            results.push(ChildResult::Done(v));
                            next += 1;
                        }
                        Err(_) => break,
                    }
                }
                Err(_) => break,
            }
        }
        if timed_out {
            unsafe { libc::kill(pid, libc::SIGKILL) };
        }
        let mut status = 0i32;
        unsafe { libc::waitpid(pid, &mut status, 0) };
        // drain
        let mut rest = Vec::new();
        let _ = reader.read_to_end(&mut rest);
        if next < jobs.len() {
            if timed_out {
                results.push(ChildResult::Timeout);
                next += 1;
            } else if libc::WIFSIGNALED(status) {
                results.push(ChildResult::Signal(libc::WTERMSIG(status)));
                next += 1;
            } else if libc::WIFEXITED(status) && libc::WEXITSTATUS(status) != 0 {
                results.push(ChildResult::Exit(libc::WEXITSTATUS(status)));
                next += 1;
            } else if libc::WIFEXITED(status) {
                // exited 0 without finishing: treat as abnormal exit of the current job
                results.push(ChildResult::Exit(0));
                next += 1;
            }
        }
    }
    results
}

/// Map an rbpf error message to a coarse class (recorded, not required to match).
pub fn err_class(msg: &str) -> &'static str {
    if msg.contains("out of bounds") {
        "oob"
    } else if msg.contains("unaligned") {
        "unaligned"
    } else if msg.contains("unknown helper") {
        "nohelper"
    } else if msg.contains("too many nested calls") {
        "depth"
    } else if msg.contains("instruction budget") {
        "budget"
    } else if msg.contains("unsupported call type") {
        "calltype"
    } else if msg.contains("TAIL_CALL") {
        "tailcall"
    } else if msg.contains("No program set") {
        "noprog"
    } else if msg.contains("not been JIT-compiled") || msg.contains("not been compiled") {
        "notcompiled"
    } else if msg.contains("[Verifier]") {
        "verifier"
    } else {
        "other"
    }
}

pub fn panic_msg(e: Box<dyn std::any::Any + Send>) -> String {
    if let Some(s) = e.downcast_ref::<&str>() {
        s.to_string()
    } else if let Some(s) = e.downcast_ref::<String>() {
        s.clone()
    } else {
        "<non-string panic>".to_string()
    }
}

pub fn read_ndjson(path: &str) -> Vec<Value> {
    let f = std::fs::File::open(path).unwrap_or_else(|e| panic!("open {path}: {e}"));
    let mut out = Vec::new();
    for line in BufReader::new(f).lines() {
        let line = line.unwrap();
        let t = line.trim();
        if t.is_empty() {
            continue;
        }
        out.push(serde_json::from_str(t).unwrap_or_else(|e| panic!("bad json line: {e}: {t}")));
    }
    out
}
