//! C12 / C08: compile verifier-accepted programs with the x86-64 JIT and Cranelift; the call must
//! return Ok or Err (as the specification says), never panic, twice the same, and the JIT's two
//! passes must agree on the code size.

use crate::exec::{self, Vm};
use crate::record;
use crate::util::*;
use serde_json::{json, Value};

/// Compile `prog` twice on a fresh VM of `kind`; returns (res, res2, sizes).
fn compile_twice(prog: &'static [u8], kind: &str, engine: &str, helpers: &[i64]) -> (String, String, [usize; 3]) {
    let mut out = Vec::new();
    let mut sizes = [0usize; 3];
    for _ in 0..2 {
        let r = std::panic::catch_unwind(|| {
            let mut vm = match Vm::new(kind, Some(prog), (0, 8)) {
                Ok(vm) => vm,
                Err(_) => return ("rejected".to_string(), (0, 0, 0)),
            };
            for (k, id) in helpers.iter().enumerate() {
                vm.register_helper(*id as i32 as u32, exec::HELPERS[k % exec::NSLOTS]).unwrap();
            }
            let r = if engine == "jit" { vm.jit_compile() } else { vm.cranelift_compile() };
            (if r.is_ok() { "ok".to_string() } else { "err".to_string() }, rbpf::verif::last_jit_sizes())
        });
        match r {
            Ok((s, sz)) => {
                out.push(s);
                sizes = [sz.0, sz.1, sz.2];
            }
            Err(e) => out.push(format!("panic:{}", panic_msg(e))),
        }
    }
    (out[0].clone(), out[1].clone(), sizes)
}

/// A record of MC_Safety (kind "verdict" with a "compile" field): all engine x helper-set pairs.
pub fn run_compile_record(rec: &Value) -> Value {
    let prog: &'static [u8] = Box::leak(prog_bytes(&rec["prog"]).into_boxed_slice());
    let mut obs = Vec::new();
    // the antecedent of C12 is the REAL verifier's verdict
    if matches!(std::panic::catch_unwind(|| Vm::new("raw", Some(prog), (0, 8)).is_err()), Ok(true)) {
        return json!({"obs": [], "rejected": true});
    }
    for (idx, (engine, hs)) in [("jit", vec![]), ("jit", vec![1i64]), ("cl", vec![]), ("cl", vec![1i64])].iter().enumerate() {
        let kinds: &[&str] = if *engine == "jit" { &["raw", "nodata", "mbuff", "fixed"] } else { &["raw"] };
        for kind in kinds {
            let (r1, r2, sizes) = compile_twice(prog, kind, engine, hs);
            obs.push(json!({"slot": idx, "engine": engine, "vm": kind, "helpers": hs, "res": r1, "res2": r2, "sizes": sizes}));
        }
    }
    json!({"obs": obs})
}

pub fn judge_compile_record(rec: &Value, o: &Value) -> Vec<String> {
    let mut bad = Vec::new();
    let exp = arr(&rec["compile"]);
    // the specification refuses the program but the real verifier accepted it (that disagreement
    // is C06's): there is no specified Ok/Err, the compilers must still not panic
    let unspecified = rec["accept"] != json!(true);
    for ob in arr(&o["obs"]) {
        let tag = format!("{} on {} with helpers {}", ob["engine"], ob["vm"], ob["helpers"]);
        let (r1, r2) = (ob["res"].as_str().unwrap(), ob["res2"].as_str().unwrap());
        if r1.starts_with("panic") || r2.starts_with("panic") {
            bad.push(format!("{tag}: compilation of a program the verifier accepted panicked: {r1}"));
            continue;
        }
        if unspecified || r1 == "rejected" {
            continue;
        }
        let want = if exp[ob["slot"].as_u64().unwrap() as usize].as_bool().unwrap() { "ok" } else { "err" };
        if r1 != want || r2 != want {
            bad.push(format!("{tag}: compilation returned {r1}/{r2}, the contract says {want}"));
        } else if ob["engine"] == "jit" && want == "ok" {
            let s = arr(&ob["sizes"]);
            let (c, e, b) = (s[0].as_u64().unwrap(), s[1].as_u64().unwrap(), s[2].as_u64().unwrap());
            if c != e || e > b {
                bad.push(format!("{tag}: sizing pass counted {c} bytes, emission wrote {e}, buffer {b}"));
            }
        }
    }
    bad
}

/// Random accepted programs: one event per (program, engine, vm kind, helper set).
pub fn run_random_compile(job: &Value) -> Value {
    let case = &job["case"];
    let prog: &'static [u8] = Box::leak(prog_bytes(&case["prog"]).into_boxed_slice());
    if Vm::new("raw", Some(prog), (0, 8)).is_err() {
        return json!({"rejected": true, "events": []});
    }
    let helpers: Vec<i64> = arr(&case["helpers"]).iter().map(|v| v.as_i64().unwrap()).collect();
    let mut events = Vec::new();
    for engine in ["jit", "cl"] {
        let kind = if engine == "jit" { case["vm"].as_str().unwrap() } else { "raw" };
        for hs in [helpers.clone(), vec![]] {
            let (r1, r2, sizes) = compile_twice(prog, kind, engine, &hs);
            events.push(json!({"prog": case["prog"], "helpers": hs, "engine": engine, "vm": kind,
                               "res": r1, "res2": r2, "sizes": sizes, "id": case["id"]}));
        }
    }
    json!({"rejected": false, "events": events})
}

pub fn gen_jobs(seed: u64, n: usize) -> Vec<Value> {
    let mut r = Rng::new(seed ^ 0xc12);
    (0..n as u64).map(|k| json!({"case": record::gen_case(&mut r, k, "mixed")})).collect()
}

/// Size ladder: n slots of `mov r1, r2` (3 bytes of x86 each) followed by exit.
pub fn run_ladder(job: &Value) -> Value {
    let n = job["n"].as_u64().unwrap() as usize;
    let kind = job["vm"].as_str().unwrap();
    let engine = job["engine"].as_str().unwrap();
    let mut v = Vec::with_capacity(8 * (n + 1));
    for _ in 0..n {
        v.extend_from_slice(&encode_slot(0xbf, 1, 2, 0, 0));
    }
    v.extend_from_slice(&encode_slot(0x95, 0, 0, 0, 0));
    let prog: &'static [u8] = Box::leak(v.into_boxed_slice());
    let t0 = std::time::Instant::now();
    let (r1, r2, sizes) = compile_twice(prog, kind, engine, &[]);
    json!({"n": n, "vm": kind, "engine": engine, "res": r1, "res2": r2, "sizes": sizes, "ms": t0.elapsed().as_millis() as u64})
}
