//! C20: a deterministic transcript of the crate's answers over a corpus (assembler texts,
//! verifier inputs, programs to disassemble, programs to run on the interpreter and the x86-64
//! JIT).  This file is compiled twice: into `rv` (rbpf with std) and into `rv_nostd` (rbpf with
//! default features off, cfg feature "nostd"); TLC (TracePair.tla) requires the two transcripts
//! to be equal line by line.

use crate::util::*;
use serde_json::{json, Value};

fn hex(b: &[u8]) -> String {
    b.iter().map(|x| format!("{x:02x}")).collect()
}

fn asm_line(text: &str) -> String {
    match std::panic::catch_unwind(|| rbpf::assembler::assemble(text)) {
        Ok(Ok(b)) => format!("ok {}", hex(&b)),
        Ok(Err(_)) => "err".to_string(),
        Err(_) => "panic".to_string(),
    }
}

fn verdict_line(prog: &'static [u8]) -> String {
    match std::panic::catch_unwind(|| rbpf::EbpfVmNoData::new(Some(prog)).is_ok()) {
        Ok(true) => "accept".to_string(),
        Ok(false) => "reject".to_string(),
        Err(_) => "panic".to_string(),
    }
}

fn disasm_line(prog: &[u8]) -> String {
    match std::panic::catch_unwind(|| rbpf::disassembler::to_insn_vec(prog)) {
        Ok(v) => v.iter().map(|h| format!("{}|{}|{}|{}|{}|{}|{}", h.opc, h.name, h.desc, h.dst, h.src, h.off, h.imm)).collect::<Vec<_>>().join(" ; "),
        Err(_) => "panic".to_string(),
    }
}

#[cfg(feature = "nostd")]
fn exec_memory(prog_len: usize) -> &'static mut [u8] {
    // generous: at most ~20 bytes of x86 per 8-byte eBPF slot, rounded up to whole pages
    let len = ((1usize << 16) + 3 * prog_len + 4095) & !4095;
    let p = unsafe {
        libc::mmap(std::ptr::null_mut(), len, libc::PROT_READ | libc::PROT_WRITE | libc::PROT_EXEC,
                   libc::MAP_PRIVATE | libc::MAP_ANONYMOUS, -1, 0)
    };
    assert!(p != libc::MAP_FAILED);
    unsafe { std::slice::from_raw_parts_mut(p as *mut u8, len) }
}

macro_rules! run_on {
    ($vm:expr, $engine:expr, $plen:expr, $exec:expr, $jit:expr) => {{
        let mut vm = $vm;
        if $engine == "jit" {
            #[cfg(feature = "nostd")]
            {
                vm.set_jit_exec_memory(exec_memory($plen)).ok();
            }
            match vm.jit_compile() {
                Err(_) => "cerr".to_string(),
                Ok(()) => match $jit(&mut vm) {
                    Ok(v) => format!("ok {v:#x}"),
                    Err(_) => "err".to_string(),
                },
            }
        } else {
            match $exec(&mut vm) {
                Ok(v) => format!("ok {v:#x}"),
                Err(_) => "err".to_string(),
            }
        }
    }};
}

/// Run an exec case (format of Exec.tla cases, without helpers / calculators) on one engine.
fn exec_line(case: &Value, engine: &str) -> String {
    let r = std::panic::catch_unwind(|| {
        let kind = case["vm"].as_str().unwrap();
        let prog: &'static [u8] = Box::leak(prog_bytes(&case["prog"]).into_boxed_slice());
        let pkt = FixedBuf::new(word(&case["pkt"]["base"]), &bytes(&case["pkt"]["bytes"])).unwrap();
        let mbuf = FixedBuf::new(word(&case["mbuf"]["base"]), &bytes(&case["mbuf"]["bytes"])).unwrap();
        let fixed = arr(&case["fixed"]);
        let (d0, d1) = (fixed[0].as_u64().unwrap() as usize, fixed[1].as_u64().unwrap() as usize);
        let res = match kind {
            "raw" => match rbpf::EbpfVmRaw::new(Some(prog)) {
                Err(_) => "reject".to_string(),
                Ok(vm) => run_on!(vm, engine, prog.len(), |v: &mut rbpf::EbpfVmRaw<'static>| v.execute_program(pkt.slice()),
                                  |v: &mut rbpf::EbpfVmRaw<'static>| unsafe { v.execute_program_jit(pkt.slice()) }),
            },
            "nodata" => match rbpf::EbpfVmNoData::new(Some(prog)) {
                Err(_) => "reject".to_string(),
                Ok(vm) => run_on!(vm, engine, prog.len(), |v: &mut rbpf::EbpfVmNoData<'static>| v.execute_program(),
                                  |v: &mut rbpf::EbpfVmNoData<'static>| unsafe { v.execute_program_jit() }),
            },
            "mbuff" => match rbpf::EbpfVmMbuff::new(Some(prog)) {
                Err(_) => "reject".to_string(),
                Ok(vm) => run_on!(vm, engine, prog.len(), |v: &mut rbpf::EbpfVmMbuff<'static>| v.execute_program(pkt.slice(), mbuf.slice()),
                                  |v: &mut rbpf::EbpfVmMbuff<'static>| unsafe { v.execute_program_jit(pkt.slice(), mbuf.slice()) }),
            },
            _ => match rbpf::EbpfVmFixedMbuff::new(Some(prog), d0, d1) {
                Err(_) => "reject".to_string(),
                Ok(vm) => run_on!(vm, engine, prog.len(), |v: &mut rbpf::EbpfVmFixedMbuff<'static>| v.execute_program(pkt.slice()),
                                  |v: &mut rbpf::EbpfVmFixedMbuff<'static>| unsafe { v.execute_program_jit(pkt.slice()) }),
            },
        };
        format!("{res} pkt={} mbuf={}", hex(&pkt.read()), hex(&mbuf.read()))
    });
    r.unwrap_or_else(|_| "panic".to_string())
}

// ---------------------------------------------------------------------------------------------
// API histories (the no_std build has one more call, set_jit_exec_memory: it is given fresh
// memory before every call that may need it - jit_compile, and set_program, which may recycle
// or drop compiled code).  Programs: P1 / P2 return 1 / 2, P7 the first packet byte, PX is refused.
// ---------------------------------------------------------------------------------------------
fn hist_prog(name: &str) -> &'static [u8] {
    match name {
        "P1" => &[0xb7, 0, 0, 0, 1, 0, 0, 0, 0x95, 0, 0, 0, 0, 0, 0, 0],
        "P2" => &[0xb7, 0, 0, 0, 2, 0, 0, 0, 0x95, 0, 0, 0, 0, 0, 0, 0],
        "P7" => &[0x71, 0x10, 0, 0, 0, 0, 0, 0, 0x95, 0, 0, 0, 0, 0, 0, 0],     // ldxb r0, [r1+0]
        _ => &[0xff; 8],
    }
}

macro_rules! hist_on {
    ($vm:expr, $calls:expr, $set:expr, $exec:expr, $jit:expr) => {{
        let mut vm = $vm;
        let mut out: Vec<String> = Vec::new();
        for c in $calls {
            let op = c[0].as_str().unwrap();
            let r = match op {
                "set_program" => {
                    #[cfg(feature = "nostd")]
                    {
                        vm.set_jit_exec_memory(exec_memory(64)).ok();
                    }
                    match $set(&mut vm, hist_prog(c[1].as_str().unwrap())) { Ok(()) => "ok".to_string(), Err(_) => "err".to_string() }
                }
                "jit_compile" => {
                    #[cfg(feature = "nostd")]
                    {
                        vm.set_jit_exec_memory(exec_memory(64)).ok();
                    }
                    match vm.jit_compile() { Ok(()) => "ok".to_string(), Err(_) => "err".to_string() }
                }
                "exec" => match $exec(&mut vm) { Ok(v) => format!("{v}"), Err(_) => "err".to_string() },
                _ => match $jit(&mut vm) { Ok(v) => format!("{v}"), Err(_) => "err".to_string() },
            };
            out.push(r);
        }
        out.join(",")
    }};
}

fn hist_line(rec: &Value) -> String {
    let r = std::panic::catch_unwind(|| {
        let calls = arr(&rec["calls"]);
        let pkt = FixedBuf::new(0x0000_1000_0010_0000 - 16, &[0x11u8; 16]).unwrap();
        match rec["kind"].as_str().unwrap() {
            "raw" => hist_on!(rbpf::EbpfVmRaw::new(None).unwrap(), &calls,
                              |v: &mut rbpf::EbpfVmRaw<'static>, p| v.set_program(p),
                              |v: &mut rbpf::EbpfVmRaw<'static>| v.execute_program(pkt.slice()),
                              |v: &mut rbpf::EbpfVmRaw<'static>| unsafe { v.execute_program_jit(pkt.slice()) }),
            _ => hist_on!(rbpf::EbpfVmFixedMbuff::new(None, 0, 8).unwrap(), &calls,
                          |v: &mut rbpf::EbpfVmFixedMbuff<'static>, p| v.set_program(p, 0, 8),
                          |v: &mut rbpf::EbpfVmFixedMbuff<'static>| v.execute_program(pkt.slice()),
                          |v: &mut rbpf::EbpfVmFixedMbuff<'static>| unsafe { v.execute_program_jit(pkt.slice()) }),
        }
    });
    r.unwrap_or_else(|_| "panic".to_string())
}

/// n x `add64 r0, 1` ; exit compiled into ONE page of caller-supplied memory (no_std build): the
/// contract is "Ok or Err, never a panic, and if Ok the code computes n".  The std build, which
/// sizes its own memory, answers the constant; so do the no_std build's conforming answers.
fn jit_small_line(n: usize) -> String {
    let r = std::panic::catch_unwind(|| {
        let mut p: Vec<u8> = vec![0xb7, 0, 0, 0, 0, 0, 0, 0];
        for _ in 0..n {
            p.extend_from_slice(&[0x07, 0, 0, 0, 1, 0, 0, 0]);
        }
        p.extend_from_slice(&[0x95, 0, 0, 0, 0, 0, 0, 0]);
        let prog: &'static [u8] = Box::leak(p.into_boxed_slice());
        let mut vm = rbpf::EbpfVmNoData::new(Some(prog)).unwrap();
        #[cfg(feature = "nostd")]
        {
            let page = unsafe {
                libc::mmap(std::ptr::null_mut(), 4096, libc::PROT_READ | libc::PROT_WRITE | libc::PROT_EXEC,
                           libc::MAP_PRIVATE | libc::MAP_ANONYMOUS, -1, 0)
            };
            assert!(page != libc::MAP_FAILED);
            vm.set_jit_exec_memory(unsafe { std::slice::from_raw_parts_mut(page as *mut u8, 4096) }).ok();
        }
        match vm.jit_compile() {
            Err(_) => if cfg!(feature = "nostd") { "contract-ok".to_string() } else { "std build refused to compile".to_string() },
            Ok(()) => match unsafe { vm.execute_program_jit() } {
                Ok(v) if v == n as u64 => "contract-ok".to_string(),
                other => format!("compiled code returned {other:?}, expected {n}"),
            },
        }
    });
    r.unwrap_or_else(|_| "panic".to_string())
}

/// One corpus record -> transcript line(s).
pub fn line_for(rec: &Value) -> Value {
    let out = match rec["t"].as_str().unwrap() {
        "asm" => asm_line(rec["text"].as_str().unwrap()),
        "verdict" => {
            let mut p = prog_bytes(&rec["prog"]);
            p.extend(std::iter::repeat(0u8).take(rec["extra"].as_u64().unwrap_or(0) as usize));
            verdict_line(Box::leak(p.into_boxed_slice()))
        }
        "disasm" => disasm_line(&bytes(&rec["bytes"])),
        "run" => exec_line(&rec["case"], "interp"),
        "jit" => exec_line(&rec["case"], "jit"),
        "hist" => hist_line(rec),
        "jit_small" => jit_small_line(rec["insns"].as_u64().unwrap() as usize),
        t => format!("unknown record type {t}"),
    };
    json!({"n": rec["n"], "t": rec["t"], "out": out})
}

/// transcript --corpus F --out T
pub fn cmd_transcript(args: &[String]) -> i32 {
    let get = |name: &str| args.iter().position(|a| a == name).and_then(|i| args.get(i + 1)).cloned();
    let corpus = match get("--corpus") { Some(c) => c, None => { eprintln!("usage: transcript --corpus F --out T"); return 2; } };
    let out = get("--out").expect("--out");
    let recs = read_ndjson(&corpus);
    let batches: Vec<Value> = recs.chunks(100).map(|c| Value::Array(c.to_vec())).collect();
    let results = run_isolated(&batches, 120000, |b| Value::Array(arr(b).iter().map(line_for).collect()));
    use std::io::Write;
    let mut f = std::fs::File::create(&out).unwrap();
    let mut lines = 0usize;
    for (b, r) in batches.iter().zip(results.iter()) {
        match r {
            ChildResult::Done(v) => {
                for l in arr(v) {
                    writeln!(f, "{}", serde_json::to_string(&l).unwrap()).unwrap();
                    lines += 1;
                }
            }
            _ => {
                // the batch crashed the process: redo it record by record so that one line marks the crash
                let rs = arr(b);
                let single = run_isolated(&rs, 60000, line_for);
                for (rec, s) in rs.iter().zip(single.iter()) {
                    let l = match s {
                        ChildResult::Done(v) => v.clone(),
                        _ => json!({"n": rec["n"], "t": rec["t"], "out": "crash"}),
                    };
                    writeln!(f, "{}", serde_json::to_string(&l).unwrap()).unwrap();
                    lines += 1;
                }
            }
        }
    }
    println!("transcript[{}]: {lines} lines", if cfg!(feature = "nostd") { "no_std" } else { "std" });
    0
}
