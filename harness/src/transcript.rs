//! C20: a deterministic transcript of the crate's answers over a corpus (assembler texts,
//! verifier inputs, programs to disassemble, programs to run on the interpreter and the x86-64
//! JIT).  This file is compiled twice: into `rv` (rbpf with std) and into `rv_nostd` (rbpf with
//! default features off, cfg feature "nostd"); TLC (TracePair.tla) requires the two transcripts
//! to be equal line by line.

use crate::util::*;
use serde_json::{json, Value};

fn hex(b: &[u8]) -> String {
    b.iter().map(|x| format!("{x:02x}")).collect()
}

fn asm_line(text: &str) -> String {
    match std::panic::catch_unwind(|| rbpf::assembler::assemble(text)) {
        Ok(Ok(b)) => format!("ok {}", hex(&b)),
        Ok(Err(_)) => "err".to_string(),
        Err(_) => "panic".to_string(),
    }
}

fn verdict_line(prog: &'static [u8]) -> String {
    match std::panic::catch_unwind(|| rbpf::EbpfVmNoData::new(Some(prog)).is_ok()) {
        Ok(true) => "accept".to_string(),
        Ok(false) => "reject".to_string(),
        Err(_) => "panic".to_string(),
    }
}

fn disasm_line(prog: &[u8]) -> String {
    match std::panic::catch_unwind(|| rbpf::disassembler::to_insn_vec(prog)) {
        Ok(v) => v.iter().map(|h| format!("{}|{}|{}|{}|{}|{}|{}", h.opc, h.name, h.desc, h.dst, h.src, h.off, h.imm)).collect::<Vec<_>>().join(" ; "),
        Err(_) => "panic".to_string(),
    }
}

#[cfg(feature = "nostd")]
fn exec_memory(prog_len: usize) -> &'static mut [u8] {
    // generous: at most ~20 bytes of x86 per 8-byte eBPF slot, rounded up to whole pages
    let len = ((1usize << 16) + 3 * prog_len + 4095) & !4095;
    let p = unsafe {
        libc::mmap(std::ptr::null_mut(), len, libc::PROT_READ | libc::PROT_WRITE | libc::PROT_EXEC,
                   libc::MAP_PRIVATE | libc::MAP_ANONYMOUS, -1, 0)
    };
    assert!(p != libc::MAP_FAILED);
    unsafe { std::slice::from_raw_parts_mut(p as *mut u8, len) }
}

macro_rules! run_on {
    ($vm:expr, $engine:expr, $plen:expr, $exec:expr, $jit:expr) => {{
        let mut vm = $vm;
        if $engine == "jit" {
            #[cfg(feature = "nostd")]
            {
                vm.set_jit_exec_memory(exec_memory($plen)).ok();
            }
            match vm.jit_compile() {
                Err(_) => "cerr".to_string(),
                Ok(()) => match $jit(&mut vm) {
                    Ok(v) => format!("ok {v:#x}"),
                    Err(_) => "err".to_string(),
                },
            }
        } else {
            match $exec(&mut vm) {
                Ok(v) => format!("ok {v:#x}"),
                Err(_) => "err".to_string(),
            }
        }
    }};
}

/// Run an exec case (format of Exec.tla cases, without helpers / calculators) on one engine.
fn exec_line(case: &Value, engine: &str) -> String {
    let r = std::panic::catch_unwind(|| {
        let kind = case["vm"].as_str().unwrap();
        let prog: &'static [u8] = Box::leak(prog_bytes(&case["prog"]).into_boxed_slice());
        let pkt = FixedBuf::new(word(&case["pkt"]["base"]), &bytes(&case["pkt"]["bytes"])).unwrap();
        let mbuf = FixedBuf::new(word(&case["mbuf"]["base"]), &bytes(&case["mbuf"]["bytes"])).unwrap();
        let fixed = arr(&case["fixed"]);
        let (d0, d1) = (fixed[0].as_u64().unwrap() as usize, fixed[1].as_u64().unwrap() as usize);
        let res = match kind {
            "raw" => match rbpf::EbpfVmRaw::new(Some(prog)) {
                Err(_) => "reject".to_string(),
                Ok(vm) => run_on!(vm, engine, prog.len(), |v: &mut rbpf::EbpfVmRaw<'static>| v.execute_program(pkt.slice()),
                                  |v: &mut rbpf::EbpfVmRaw<'static>| unsafe { v.execute_program_jit(pkt.slice()) }),
            },
            "nodata" => match rbpf::EbpfVmNoData::new(Some(prog)) {
                Err(_) => "reject".to_string(),
                Ok(vm) => run_on!(vm, engine, prog.len(), |v: &mut rbpf::EbpfVmNoData<'static>| v.execute_program(),
                                  |v: &mut rbpf::EbpfVmNoData<'static>| unsafe { v.execute_program_jit() }),
            },
            "mbuff" => match rbpf::EbpfVmMbuff::new(Some(prog)) {
                Err(_) => "reject".to_string(),
                Ok(vm) => run_on!(vm, engine, prog.len(), |v: &mut rbpf::EbpfVmMbuff<'static>| v.execute_program(pkt.slice(), mbuf.slice()),
                                  |v: &mut rbpf::EbpfVmMbuff<'static>| unsafe { v.execute_program_jit(pkt.slice(), mbuf.slice()) }),
            },
            _ => match rbpf::EbpfVmFixedMbuff::new(Some(prog), d0, d1) {
                Err(_) => "reject".to_string(),
                Ok(vm) => run_on!(vm, engine, prog.len(), |v: &mut rbpf::EbpfVmFixedMbuff<'static>| v.execute_program(pkt.slice()),
                                  |v: &mut rbpf::EbpfVmFixedMbuff<'static>| unsafe { v.execute_program_jit(pkt.slice()) }),
            },
        };
        format!("{res} pkt={} mbuf={}", hex(&pkt.read()), hex(&mbuf.read()))
    });
    r.unwrap_or_else(|_| "panic".to_string())
}

/// One corpus record -> transcript line(s).
pub fn line_for(rec: &Value) -> Value {
    let out = match rec["t"].as_str().unwrap() {
        "asm" => asm_line(rec["text"].as_str().unwrap()),
        "verdict" => {
            let mut p = prog_bytes(&rec["prog"]);
            p.extend(std::iter::repeat(0u8).take(rec["extra"].as_u64().unwrap_or(0) as usize));
            verdict_line(Box::leak(p.into_boxed_slice()))
        }
        "disasm" => disasm_line(&bytes(&rec["bytes"])),
        "run" => exec_line(&rec["case"], "interp"),
        "jit" => exec_line(&rec["case"], "jit"),
        t => format!("unknown record type {t}"),
    };
    json!({"n": rec["n"], "t": rec["t"], "out": out})
}

/// transcript --corpus F --out T
pub fn cmd_transcript(args: &[String]) -> i32 {
    let get = |name: &str| args.iter().position(|a| a == name).and_then(|i| args.get(i + 1)).cloned();
    let corpus = match get("--corpus") { Some(c) => c, None => { eprintln!("usage: transcript --corpus F --out T"); return 2; } };
    let out = get("--out").expect("--out");
    let recs = read_ndjson(&corpus);
    let batches: Vec<Value> = recs.chunks(100).map(|c| Value::Array(c.to_vec())).collect();
    let results = run_isolated(&batches, 120000, |b| Value::Array(arr(b).iter().map(line_for).collect()));
    use std::io::Write;
    let mut f = std::fs::File::create(&out).unwrap();
    let mut lines = 0usize;
    for (b, r) in batches.iter().zip(results.iter()) {
        match r {
            ChildResult::Done(v) => {
                for l in arr(v) {
                    writeln!(f, "{}", serde_json::to_string(&l).unwrap()).unwrap();
                    lines += 1;
                }
            }
            _ => {
                // the batch crashed the process: redo it record by record so that one line marks the crash
                let rs = arr(b);
                let single = run_isolated(&rs, 60000, line_for);
                for (rec, s) in rs.iter().zip(single.iter()) {
                    let l = match s {
                        ChildResult::Done(v) => v.clone(),
                        _ => json!({"n": rec["n"], "t": rec["t"], "out": "crash"}),
                    };
                    writeln!(f, "{}", serde_json::to_string(&l).unwrap()).unwrap();
                    lines += 1;
                }
            }
        }
    }
    println!("transcript[{}]: {lines} lines", if cfg!(feature = "nostd") { "no_std" } else { "std" });
    0
}
