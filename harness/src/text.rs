//! C13-C16: assembler and disassembler against the token-level specification (Asm.tla,
//! Disasm.tla).  The renderer below is the only step between abstract syntax and text.

use crate::util::*;
use serde_json::{json, Value};

fn digits(v: &Value, hex: bool) -> String {
    arr(v).iter().map(|d| {
        let d = d.as_u64().unwrap() as u32;
        std::char::from_digit(d, if hex { 16 } else { 10 }).unwrap()
    }).collect()
}

pub fn render_lit(l: &Value) -> String {
    let hex = l["hex"].as_bool().unwrap_or(false);
    format!("{}{}{}", l["sign"].as_str().unwrap_or(""), if hex { "0x" } else { "" }, digits(&l["digs"], hex))
}

pub fn render_op(o: &Value) -> String {
    match o["k"].as_str().unwrap() {
        "reg" => format!("r{}", digits(&o["n"]["digs"], false)),
        "int" => render_lit(&o["v"]),
        "mem" => {
            let off = if arr(&o["off"]["digs"]).is_empty() { String::new() } else { render_lit(&o["off"]) };
            format!("[r{}{}]", digits(&o["n"]["digs"], false), off)
        }
        k => panic!("operand kind {k}"),
    }
}

pub fn render_insn(i: &Value) -> String {
    let ops: Vec<String> = arr(&i["ops"]).iter().map(render_op).collect();
    if ops.is_empty() { i["mn"].as_str().unwrap().to_string() } else { format!("{} {}", i["mn"].as_str().unwrap(), ops.join(", ")) }
}

pub fn render_prog(p: &Value) -> String {
    arr(p).iter().map(render_insn).collect::<Vec<_>>().join("\n")
}

/// The same abstract program in the other layouts the documented grammar admits (the mnemonic is
/// followed by white space, operands are separated by a comma followed by optional white space,
/// instructions by any white space; white space may lead and trail):
///   1 indented, tab after the mnemonic, two blanks after commas, trailing blanks, blank lines
///   2 no blank after commas          3 the whole program on one line
///   4 a line break after every comma, CR LF line ends
pub fn render_prog_style(p: &Value, style: u32) -> String {
    let insns: Vec<(String, Vec<String>)> = arr(p).iter()
        .map(|i| (i["mn"].as_str().unwrap().to_string(), arr(&i["ops"]).iter().map(render_op).collect())).collect();
    let one = |mn: &String, ops: &Vec<String>, after_mn: &str, sep: &str| {
        if ops.is_empty() { mn.clone() } else { format!("{mn}{after_mn}{}", ops.join(sep)) }
    };
    match style {
        1 => insns.iter().map(|(m, o)| format!("  {}  ", one(m, o, "\t", ",  "))).collect::<Vec<_>>().join("\n\n") + "\n",
        2 => insns.iter().map(|(m, o)| one(m, o, " ", ",")).collect::<Vec<_>>().join("\n"),
        3 => insns.iter().map(|(m, o)| one(m, o, " ", ", ")).collect::<Vec<_>>().join(" "),
        4 => insns.iter().map(|(m, o)| one(m, o, " ", ",\r\n    ")).collect::<Vec<_>>().join("\r\n"),
        _ => render_prog(p),
    }
}

fn asm(text: &str) -> Value {
    match std::panic::catch_unwind(|| rbpf::assembler::assemble(text)) {
        Ok(Ok(b)) => json!({"k": "ok", "bytes": bytes_json(&b)}),
        Ok(Err(m)) => json!({"k": "err", "msg": m}),
        Err(e) => json!({"k": "panic", "msg": panic_msg(e)}),
    }
}

fn same_asm(exp: &Value, got: &Value) -> Result<(), String> {
    let want_ok = exp["ok"].as_bool().unwrap();
    match got["k"].as_str().unwrap() {
        "panic" => Err(format!("assemble panicked: {}", got["msg"])),
        "ok" if !want_ok => Err(format!("assembled to {} although the text denotes no instruction sequence", got["bytes"])),
        "err" if want_ok => Err(format!("refused ({}) although the text denotes bytes {}", got["msg"], exp["bytes"])),
        "ok" => {
            if bytes(&exp["bytes"]) == bytes(&got["bytes"]) { Ok(()) } else { Err(format!("emitted {} instead of {}", got["bytes"], exp["bytes"])) }
        }
        _ => Ok(()),
    }
}

/// Run one text record (kind asm | disasm) in a child process.
pub fn run_text(rec: &Value) -> Value {
    match rec["kind"].as_str().unwrap() {
        "asm" => {
            let text = render_prog(&rec["prog"]);
            let styles: Vec<Value> = (1..=4u32).map(|st| {
                let t = render_prog_style(&rec["prog"], st);
                json!({"style": st, "text": t, "asm": asm(&t)})
            }).collect();
            json!({"text": text, "asm": asm(&text), "styles": styles})
        }
        "disasm" => {
            let prog = bytes(&rec["bytes"]);
            let r = std::panic::catch_unwind(|| rbpf::disassembler::to_insn_vec(&prog));
            match r {
                Err(e) => json!({"dis": "panic", "msg": panic_msg(e)}),
                Ok(v) => {
                    let entries: Vec<Value> = v.iter().map(|h| json!({"opc": h.opc, "name": h.name, "desc": h.desc,
                        "dst": h.dst, "src": h.src, "off": h.off, "imm": word_json(h.imm as u64)})).collect();
                    let text = v.iter().map(|h| h.desc.clone()).collect::<Vec<_>>().join("\n");
                    json!({"dis": "ok", "entries": entries, "text": text, "asm": asm(&text)})
                }
            }
        }
        k => panic!("text kind {k}"),
    }
}

pub fn judge_text(rec: &Value, o: &Value) -> Vec<String> {
    let mut bad = Vec::new();
    match rec["kind"].as_str().unwrap() {
        "asm" => {
            if let Err(e) = same_asm(&rec["exp"], &o["asm"]) {
                bad.push(format!("`{}`: {e}", o["text"].as_str().unwrap_or("").replace('\n', " ; ")));
            }
            // the same program in the other white-space layouts of the grammar: the same answer
            for st in arr(&o["styles"]) {
                if let Err(e) = same_asm(&rec["exp"], &st["asm"]) {
                    bad.push(format!("white-space layout {} {:?}: {e}", st["style"], st["text"].as_str().unwrap_or("")));
                    break;
                }
            }
        }
        "disasm" => {
            if o["dis"] == "panic" {
                bad.push(format!("disassembler panicked: {}", o["msg"]));
                if rec["exp"]["expressible"] == json!(true) {
                    bad.push("round trip impossible: the disassembler panicked on an assembler-expressible program".to_string());
                }
                return bad;
            }
            let exp = arr(&rec["exp"]["entries"]);
            let got = arr(&o["entries"]);
            if exp.len() != got.len() {
                bad.push(format!("{} entries instead of {}", got.len(), exp.len()));
            }
            for (k, (e, g)) in exp.iter().zip(got.iter()).enumerate() {
                if exp.len() != got.len() {
                    break;
                }
                for f in ["opc", "dst", "src", "off"] {
                    if e[f].as_i64() != g[f].as_i64() {
                        bad.push(format!("entry {k}: {f} = {} instead of {}", g[f], e[f]));
                    }
                }
                if word(&e["imm"]) != word(&g["imm"]) {
                    bad.push(format!("entry {k}: imm = {:#x} instead of {:#x}", word(&g["imm"]), word(&e["imm"])));
                }
                if e["name"] != g["name"] {
                    bad.push(format!("entry {k}: name {} instead of {}", g["name"], e["name"]));
                }
                let want = render_insn(&e["desc"]);
                if g["desc"].as_str() != Some(want.as_str()) {
                    bad.push(format!("entry {k}: text `{}` instead of `{want}`", g["desc"].as_str().unwrap_or("")));
                }
            }
            // C16: assembling the printed text
            if let Err(e) = same_asm(&rec["exp"]["rt"], &o["asm"]) {
                bad.push(format!("round trip of `{}`: {e}", o["text"].as_str().unwrap_or("").replace('\n', " ; ")));
            }
        }
        _ => {}
    }
    bad
}

// ---------------------------------------------------------------------------------------------
// C14: string-level fuzzing of assemble() (beyond the abstract syntax): Ok or Err, in bounded
// time, never a panic.
// ---------------------------------------------------------------------------------------------

const VOCAB: [&str; 60] = ["mov", "add", "add32", "lddw", "ldxw", "ldxdw", "stb", "stxh", "ja", "jeq", "jsgt32", "call", "callx",
    "exit", "neg", "be16", "le64", "ldabsb", "ldindw", "rsh", "r0", "r1", "r9", "r10", "r15", "r16", "r", "r99999999999999999999",
    "0", "1", "-1", "+1", "0x", "0x0", "0xffffffff", "-0x8000000000000000", "9223372036854775808", "-9223372036854775808",
    "99999999999999999999999999999999999999999", "0x11111111111111111", "[", "]", "[r1", "[r1+", "[r1+8]", "[r10-0x8]",
    ",", ", ", " ", "\n", "\t", "+", "-", "x", "#", ";", "\u{e9}", "\u{1F600}", "\0", ""];

pub fn gen_fuzz_input(r: &mut Rng) -> String {
    let valid = ["mov r0, 1\nexit", "lddw r1, 0x1122334455667788\nja +2\nexit", "ldxw r2, [r1+4]\nstxdw [r10-8], r2\njeq r2, 5, -3\nexit",
                 "add32 r3, r4\nneg64 r5\nbe32 r6\ncall 6\nexit"];
    match r.below(4) {
        0 => (0..r.below(60)).map(|_| (32 + r.below(95)) as u8 as char).collect(),
        1 => (0..r.below(40)).map(|_| char::from_u32(r.below(0x2fff) as u32).unwrap_or('?')).collect(),
        2 => (0..r.below(14)).map(|_| *r.pick(&VOCAB)).collect::<Vec<_>>().join(if r.chance(1, 2) { " " } else { "" }),
        _ => {
            let mut s: Vec<char> = r.pick(&valid).chars().collect();
            for _ in 0..(1 + r.below(3)) {
                if s.is_empty() { break; }
                let k = r.below(s.len() as u64) as usize;
                match r.below(3) {
                    0 => { s.remove(k); }
                    1 => s.insert(k, (32 + r.below(95)) as u8 as char),
                    _ => s[k] = *r.pick(&['r', '0', '9', 'x', '-', '+', '[', ']', ',', ' ', 'f', '\n']),
                }
            }
            s.into_iter().collect()
        }
    }
}

/// Deterministic part of the corpus: words of every byte length 1..=131 (+ the width of the last
/// character) whose last character is a 2-, 3- or 4-byte Unicode letter, so that every byte offset
/// up to 130 falls inside a multi-byte character in some input; in mnemonic, register, immediate
/// and label position, alone and after a valid instruction.  Plus digit strings of every length
/// 1..=45 made of '9', of '1' followed by zeros, and of 'f' (hex), in immediate and offset position.
pub fn systematic_inputs() -> Vec<String> {
    let mut v = Vec::new();
    for n in 0..=130usize {
        for ch in ['\u{e9}', '\u{4e2d}', '\u{1d400}'] {
            let w: String = "a".repeat(n) + &ch.to_string();
            v.push(w.clone());
            v.push(format!("{w}bbbbb r1, 2"));
            v.push(format!("exit\n{w}"));
            v.push(format!("mov {w}, 1"));
            v.push(format!("mov r1, {w}"));
            v.push(format!("ja {w}"));
        }
    }
    for n in 1..=45usize {
        for (pre, d0, d) in [("", '9', '9'), ("", '1', '0'), ("-", '9', '9'), ("0x", 'f', 'f'), ("-0x", '1', '0'), ("", '0', '1')] {
            let lit: String = pre.to_string() + &d0.to_string() + &d.to_string().repeat(n - 1);
            v.push(format!("mov r1, {lit}"));
            v.push(format!("lddw r1, {lit}"));
            v.push(format!("ja {lit}"));
            v.push(format!("call {lit}"));
            let signed = if lit.starts_with('-') { lit.clone() } else { format!("+{lit}") };
            v.push(format!("ldxw r1, [r2{signed}]"));
            v.push(format!("stw [r2{signed}], {lit}"));
            v.push(format!("mov r{lit}, 1"));
        }
    }
    v
}

pub fn run_fuzz(input: &Value) -> Value {
    let text = input.as_str().unwrap();
    let a = asm(text);
    json!({"k": a["k"], "msg": a["msg"]})
}
