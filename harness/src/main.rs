//! rv - conformance harness binding the TLA+ specification in /verif/spec to the real rbpf.
//!
//! Direction B: `rv replay` executes TLC-generated cases (with the outcomes the specification
//! allows) on the real engines and reports every disagreement.
//! Direction A: `rv record ...` drives the real code with seeded inputs and writes NDJSON traces
//! that TLC validates against the specification.
//!
//! Exit status: 0 = ran to completion (disagreements are in the report), 2 = tool error.

mod api;
mod compile;
mod enc;
mod exec;
mod helpers;
mod record;
mod text;
mod transcript;
mod util;
mod verdict;
mod words;
mod xadd;

use serde_json::{json, Value};
use std::collections::BTreeMap;
use util::*;

fn arg<'a>(args: &'a [String], name: &str) -> Option<&'a str> {
    args.iter().position(|a| a == name).and_then(|i| args.get(i + 1)).map(|s| s.as_str())
}

fn main() {
    let args: Vec<String> = std::env::args().collect();
    if args.len() < 2 {
        eprintln!("usage: rv <replay|exec-one|...> [options]");
        std::process::exit(2);
    }
    // keep panics of the code under test quiet: they are caught and reported as data
    std::panic::set_hook(Box::new(|_| {}));
    let code = match args[1].as_str() {
        "replay" => cmd_replay(&args[2..]),
        "exec-one" => cmd_exec_one(&args[2..]),
        "verdicts" => cmd_verdicts(&args[2..]),
        "record-interp" => cmd_record_interp(&args[2..]),
        "record-api" => cmd_record_api(&args[2..]),
        "compiles" => cmd_compiles(&args[2..]),
        "texts" => cmd_texts(&args[2..]),
        "fuzz-asm" => cmd_fuzz_asm(&args[2..]),
        "encs" => cmd_encs(&args[2..]),
        "helpers" => cmd_helpers(&args[2..]),
        "xadd" => cmd_xadd(&args[2..]),
        "transcript" => transcript::cmd_transcript(&args[2..]),
        "render" => cmd_render(&args[2..]),
        "words" => cmd_words(&args[2..]),
        other => {
            eprintln!("unknown command {other}");
            2
        }
    };
    std::process::exit(code);
}

/// Group "REPLAY" records by case identity: the specification may allow several outcomes.
fn group_cases(recs: &[Value]) -> Vec<(Value, Vec<Value>)> {
    let mut idx: BTreeMap<String, usize> = BTreeMap::new();
    let mut groups: Vec<(Value, Vec<Value>)> = Vec::new();
    for r in recs {
        let key = format!("{}|{}|{}", r["case"]["fam"], r["case"]["id"], r["case"]["vm"]);
        match idx.get(&key) {
            Some(i) => groups[*i].1.push(r["exp"].clone()),
            None => {
                idx.insert(key, groups.len());
                groups.push((r["case"].clone(), vec![r["exp"].clone()]));
            }
        }
    }
    groups
}

fn child_to_obs(r: &ChildResult, engine: &str) -> Value {
    match r {
        ChildResult::Done(v) => v.clone(),
        ChildResult::Signal(s) => json!({"engine": engine, "k": "signal", "sig": s}),
        ChildResult::Timeout => json!({"engine": engine, "k": "timeout", "sig": 0}),
        ChildResult::Exit(c) => json!({"engine": engine, "k": "exit", "sig": c}),
    }
}

/// rv replay --cases F --engines interp,jit,cl --report OUT [--timeout-ms N]
fn cmd_replay(args: &[String]) -> i32 {
    let cases_path = arg(args, "--cases").expect("--cases");
    let engines: Vec<String> = arg(args, "--engines").unwrap_or("interp").split(',').map(|s| s.to_string()).collect();
    let report_path = arg(args, "--report").expect("--report");
    let timeout_ms: i32 = arg(args, "--timeout-ms").map(|s| s.parse().unwrap()).unwrap_or(20000);
    let max_fail: usize = arg(args, "--max-fail").map(|s| s.parse().unwrap()).unwrap_or(200);

    let recs = read_ndjson(cases_path);
    let groups = group_cases(&recs);
    exec::calibrate_helpers();

    let mut jobs: Vec<(usize, String)> = Vec::new();
    let mut skipped: BTreeMap<String, u64> = BTreeMap::new();
    for (gi, (case, exps)) in groups.iter().enumerate() {
        let exp_refs: Vec<&Value> = exps.iter().collect();
        for e in &engines {
            match exec::outside_claim(case, &exp_refs, e) {
                Some(why) => *skipped.entry(format!("{e}:{why}")).or_insert(0) += 1,
                None => jobs.push((gi, e.clone())),
            }
        }
    }
    let pair = arg(args, "--pair").map(|s| s.to_string());
    let results = run_isolated(&jobs, timeout_ms, |(gi, e)| exec::run_case(&groups[*gi].0, e));
    // reference engine (translation validation): run it on the same cases
    let ref_obs: Option<Vec<Value>> = pair.as_ref().map(|pe| {
        let pj: Vec<(usize, String)> = jobs.iter().map(|(gi, _)| (*gi, pe.clone())).collect();
        run_isolated(&pj, timeout_ms, |(gi, e)| exec::run_case(&groups[*gi].0, e))
            .iter()
            .map(|r| child_to_obs(r, pe))
            .collect()
    });

    let mut pass = 0u64;
    let mut fails: Vec<Value> = Vec::new();
    let mut nfail = 0u64;
    let mut known: BTreeMap<String, u64> = BTreeMap::new();
    let mut disagreements = 0u64;
    let mut per_engine: BTreeMap<String, u64> = BTreeMap::new();
    let mut samples: Vec<Value> = Vec::new();
    for (ji, ((gi, e), r)) in jobs.iter().zip(results.iter()).enumerate() {
        let (case, exps) = &groups[*gi];
        let obs = child_to_obs(r, e);
        let exp_refs: Vec<&Value> = exps.iter().collect();
        *per_engine.entry(e.clone()).or_insert(0) += 1;
        let mut verdict = exec::judge(case, &exp_refs, &obs, e);
        let mut robs = Value::Null;
        if let (Some(ro), Some(pe)) = (&ref_obs, &pair) {
            // C03/C04: the claim is agreement with the reference engine where that one returned a
            // value; the specification adjudicates which side departs from the ISA
            robs = ro[ji].clone();
            let rj = exec::judge(case, &exp_refs, &robs, pe);
            let agree = exec::same_outcome(case, &obs, &robs);
            verdict = match (agree, verdict, rj) {
                (Ok(()), exec::Judgement::Skip(w), _) => exec::Judgement::Skip(w),
                (Ok(()), _, _) => exec::Judgement::Pass,
                (Err(_), exec::Judgement::Skip(w), _) => exec::Judgement::Skip(w),
                // both follow the specification (e.g. Err in the interpreter, trap in Cranelift)
                (Err(d), exec::Judgement::Pass, exec::Judgement::Pass) => {
                    if obs["k"] == "ok" && robs["k"] == "ok" {
                        // the specification leaves room (e.g. modulo by zero, 32-bit) but the
                        // engines must still agree with each other
                        disagreements += 1;
                        exec::Judgement::Fail(format!("engines disagree ({d}); each outcome is allowed by the specification taken alone, but {e} must agree with {pe}"))
                    } else {
                        exec::Judgement::Pass
                    }
                }
                (Err(d), v, rj) => {
                    disagreements += 1;
                    if robs["k"] != "ok" && obs["k"] != "panic" && obs["k"] != "signal" && obs["k"] != "timeout" {
                        // the reference did not return a value: outside the claim, unless the
                        // engine itself crashed
                        match v {
                            exec::Judgement::Pass => exec::Judgement::Skip("reference-engine-did-not-return-a-value"),
                            other => other,
                        }
                    } else {
                        match (v, rj) {
                            (exec::Judgement::Pass, exec::Judgement::Known(k, _)) =>
                                exec::Judgement::Known(k, format!("engines disagree ({d}); {e} follows the specification, {pe} departs as recorded")),
                            (exec::Judgement::Pass, _) =>
                                exec::Judgement::Fail(format!("engines disagree ({d}); {e} follows the specification, {pe} does not")),
                            (exec::Judgement::Known(k, _), _) =>
                                exec::Judgement::Known(k, format!("engines disagree ({d}); {e} departs as recorded")),
                            (exec::Judgement::Fail(r), _) =>
                                exec::Judgement::Fail(format!("engines disagree ({d}); {e} departs from the specification: {r}")),
                            (exec::Judgement::Skip(w), _) => exec::Judgement::Skip(w),
                        }
                    }
                }
            };
        }
        match verdict {
            exec::Judgement::Pass => {
                pass += 1;
                if samples.len() < 3 {
                    samples.push(json!({"case": case, "expected": exps, "observed": obs}));
                }
            }
            exec::Judgement::Skip(why) => *skipped.entry(format!("{e}:{why}")).or_insert(0) += 1,
            exec::Judgement::Known(key, _) => *known.entry(key).or_insert(0) += 1,
            exec::Judgement::Fail(reason) => {
                nfail += 1;
                if fails.len() < max_fail {
                    fails.push(json!({"case": case, "engine": e, "expected": exps, "observed": obs,
                                      "reference": robs, "reason": reason}));
                }
            }
        }
    }
    let report = json!({
        "cases": groups.len(), "records": recs.len(), "runs": jobs.len(), "pass": pass,
        "skipped": skipped, "fail": nfail, "known": known, "per_engine": per_engine,
        "disagreements_checked": disagreements,
        "failures": fails, "samples": samples,
    });
    std::fs::write(report_path, serde_json::to_string(&report).unwrap()).unwrap();
    println!("replay: {} cases, {} runs, {} pass, {} fail, known {:?}, skipped {:?}", groups.len(), jobs.len(), pass, nfail, known, skipped);
    0
}

/// rv exec-one --case FILE [--engine E]: run one case (a failure record or a REPLAY record) and
/// print what is observed; used by the replay command of the checks.
fn cmd_exec_one(args: &[String]) -> i32 {
    let path = arg(args, "--case").expect("--case");
    let v: Value = serde_json::from_str(&std::fs::read_to_string(path).unwrap()).unwrap();
    let case = v["case"].clone();
    let engine = arg(args, "--engine").map(|s| s.to_string()).or_else(|| v["engine"].as_str().map(|s| s.to_string())).unwrap_or("interp".into());
    exec::calibrate_helpers();
    let jobs = vec![(0usize, engine.clone())];
    let results = run_isolated(&jobs, 20000, |(_, e)| exec::run_case(&case, e));
    let obs = child_to_obs(&results[0], &engine);
    let exps: Vec<Value> = match &v["expected"] {
        Value::Array(a) => a.clone(),
        _ => vec![v["exp"].clone()],
    };
    let exp_refs: Vec<&Value> = exps.iter().collect();
    println!("observed: {obs}");
    println!("expected: {}", serde_json::to_string(&exps).unwrap());
    if v["reference"].is_object() && engine != "interp" {
        // translation validation record: show the interpreter's answer on the same case too
        let rj = vec![(0usize, "interp".to_string())];
        let rr = run_isolated(&rj, 20000, |(_, e)| exec::run_case(&case, e));
        let robs = child_to_obs(&rr[0], "interp");
        println!("interpreter: {robs}");
        if let Err(d) = exec::same_outcome(&case, &obs, &robs) {
            println!("engines disagree: {d}");
        }
    }
    match exec::judge(&case, &exp_refs, &obs, &engine) {
        exec::Judgement::Pass => { println!("verdict: agrees with the specification"); 0 }
        exec::Judgement::Skip(w) => { println!("verdict: outside the claim ({w})"); 0 }
        exec::Judgement::Known(k, r) => { println!("verdict: known finding {k}: {r}"); 0 }
        exec::Judgement::Fail(r) => { println!("verdict: DISAGREES: {r}"); 1 }
    }
}

/// rv verdicts --cases F --report OUT: replay TLC-generated verdict records (C06, C05).
fn cmd_verdicts(args: &[String]) -> i32 {
    let cases_path = arg(args, "--cases").expect("--cases");
    let report_path = arg(args, "--report").expect("--report");
    let recs = read_ndjson(cases_path);
    let results = run_isolated(&recs, 60000, verdict::run_verdict);
    let mut pass = 0u64;
    let mut nfail = 0u64;
    let mut fails = Vec::new();
    let mut accepted = 0u64;
    let mut executed = 0u64;
    let mut samples = Vec::new();
    for (rec, r) in recs.iter().zip(results.iter()) {
        let (bad, obs) = match r {
            ChildResult::Done(v) => (verdict::judge_verdict(rec, v), v.clone()),
            ChildResult::Signal(s) => (vec![format!("process killed by signal {s} while loading/running")], json!({"signal": s})),
            ChildResult::Timeout => (vec!["timeout while loading/running".to_string()], json!({"timeout": true})),
            ChildResult::Exit(c) => (vec![format!("process exited {c}")], json!({"exit": c})),
        };
        if rec["accept"] == json!(true) {
            accepted += 1;
        }
        executed += arr(&obs["runs"]).iter().filter(|x| x.as_str().map(|s| s != "rejected").unwrap_or(false)).count() as u64;
        if bad.is_empty() {
            pass += 1;
            if samples.len() < 3 {
                samples.push(json!({"record": rec, "observed": obs}));
            }
        } else {
            nfail += 1;
            if fails.len() < 300 {
                fails.push(json!({"record": rec, "observed": obs, "reason": bad.join(" | ")}));
            }
        }
    }
    let report = json!({"records": recs.len(), "pass": pass, "fail": nfail, "spec_accepts": accepted,
                        "interpreter_runs": executed, "failures": fails, "samples": samples});
    std::fs::write(report_path, serde_json::to_string(&report).unwrap()).unwrap();
    println!("verdicts: {} records, {} pass, {} fail, {} accepted by the specification, {} interpreter runs", recs.len(), pass, nfail, accepted, executed);
    0
}

/// rv record-interp --seed S --n N --mode mixed|structured|arbitrary --out-prefix P --chunks K
/// Drive the interpreter with N seeded random accepted programs, record every step, and write
/// the traces to K files P.<k>.ndjson (validated in parallel by TLC).  A summary goes to P.summary.json.
fn cmd_record_interp(args: &[String]) -> i32 {
    let seed: u64 = arg(args, "--seed").map(|s| s.parse().unwrap()).unwrap_or(1);
    let n: usize = arg(args, "--n").map(|s| s.parse().unwrap()).unwrap_or(100);
    let mode = arg(args, "--mode").unwrap_or("mixed").to_string();
    let prefix = arg(args, "--out-prefix").expect("--out-prefix");
    let chunks: usize = arg(args, "--chunks").map(|s| s.parse().unwrap()).unwrap_or(1);
    exec::calibrate_helpers();
    let mut rng = Rng::new(seed);
    // over-generate: the real verifier refuses some of the arbitrary programs
    let mut cases: Vec<Value> = Vec::new();
    if let Some(f) = arg(args, "--cases") {
        // replay: record the given cases instead of generating
        cases = read_ndjson(f).into_iter().map(|r| if r["case"].is_object() { r["case"].clone() } else { r }).collect();
    } else {
        for k in 0..(3 * n as u64 + 10) {
            cases.push(record::gen_case(&mut rng, k, &mode));
        }
    }
    let results = run_isolated(&cases, 20000, record::record_run);
    let mut files: Vec<std::fs::File> = (0..chunks)
        .map(|k| std::fs::File::create(format!("{prefix}.{k}.ndjson")).unwrap())
        .collect();
    let mut accepted = 0usize;
    let mut rejected = 0usize;
    let mut events = 0usize;
    let mut crashes: Vec<Value> = Vec::new();
    let mut outcomes: BTreeMap<String, u64> = BTreeMap::new();
    let mut index: Vec<Value> = Vec::new();
    use std::io::Write;
    let mut per_chunk_lines = vec![0usize; chunks];
    for (case, r) in cases.iter().zip(results.iter()) {
        if accepted >= n {
            break;
        }
        match r {
            ChildResult::Done(v) => {
                if v["rejected"] == json!(true) {
                    rejected += 1;
                    continue;
                }
                let k = accepted % chunks;
                let evs = arr(&v["events"]);
                index.push(json!({"chunk": k, "first_line": per_chunk_lines[k] + 1, "events": evs.len(), "id": case["id"]}));
                for e in &evs {
                    writeln!(files[k], "{}", serde_json::to_string(e).unwrap()).unwrap();
                }
                per_chunk_lines[k] += evs.len();
                events += evs.len();
                accepted += 1;
                *outcomes.entry(v["outcome"].as_str().unwrap_or("?").to_string()).or_insert(0) += 1;
                if v["outcome"] == "panic" {
                    crashes.push(json!({"case": case, "how": "panic"}));
                }
            }
            ChildResult::Signal(s) => crashes.push(json!({"case": case, "how": format!("signal {s}")})),
            ChildResult::Timeout => crashes.push(json!({"case": case, "how": "timeout"})),
            ChildResult::Exit(c) => crashes.push(json!({"case": case, "how": format!("exit {c}")})),
        }
    }
    let summary = json!({"generated": cases.len(), "accepted": accepted, "rejected_by_verifier": rejected,
                         "events": events, "outcomes": outcomes, "crashes": crashes, "index": index, "chunks": chunks});
    std::fs::write(format!("{prefix}.summary.json"), serde_json::to_string(&summary).unwrap()).unwrap();
    println!("record-interp: {} generated, {} accepted, {} events, outcomes {:?}, {} crashes", cases.len(), accepted, events, outcomes, crashes.len());
    0
}

/// rv record-api --seed S --n N --len L --kind K --out F: N random API histories of length L on VM
/// kind K, each in its own child process; events go to F (NDJSON) for TraceApi.tla.
fn cmd_record_api(args: &[String]) -> i32 {
    let seed: u64 = arg(args, "--seed").map(|s| s.parse().unwrap()).unwrap_or(1);
    let n: u64 = arg(args, "--n").map(|s| s.parse().unwrap()).unwrap_or(100);
    let len: u64 = arg(args, "--len").map(|s| s.parse().unwrap()).unwrap_or(30);
    let kind = arg(args, "--kind").expect("--kind");
    let out = arg(args, "--out").expect("--out");
    exec::calibrate_helpers();
    // --script F: histories planned from the specification's state graph (one JSON job per line)
    let script = arg(args, "--script");
    let jobs: Vec<Value> = match script {
        Some(path) => read_ndjson(path),
        None => (0..n).map(|k| json!({"kind": kind, "seed": seed.wrapping_mul(1000003).wrapping_add(k), "len": len})).collect(),
    };
    let results = if script.is_some() { run_isolated(&jobs, 60000, api::run_script) } else { run_isolated(&jobs, 30000, api::run_history) };
    use std::io::Write;
    let mut f = std::fs::File::create(out).unwrap();
    let mut events = 0usize;
    let mut crashed: Vec<Value> = Vec::new();
    let mut index: Vec<Value> = Vec::new();
    let mut line = 0usize;
    for (job, r) in jobs.iter().zip(results.iter()) {
        match r {
            ChildResult::Done(v) => {
                let evs = arr(&v["events"]);
                index.push(json!({"first_line": line + 1, "events": evs.len(), "job": job}));
                for e in &evs {
                    writeln!(f, "{}", serde_json::to_string(e).unwrap()).unwrap();
                }
                line += evs.len();
                events += evs.len();
            }
            ChildResult::Signal(s) => crashed.push(json!({"job": job, "how": format!("signal {s}")})),
            ChildResult::Timeout => crashed.push(json!({"job": job, "how": "timeout"})),
            ChildResult::Exit(c) => crashed.push(json!({"job": job, "how": format!("exit {c}")})),
        }
    }
    let summary = json!({"histories": jobs.len(), "events": events, "crashed": crashed, "index": index});
    std::fs::write(format!("{out}.summary.json"), serde_json::to_string(&summary).unwrap()).unwrap();
    println!("record-api[{kind}]: {} histories, {} events, {} crashed", jobs.len(), events, crashed.len());
    0
}

/// rv compiles --cases F --report R          MC_Safety records: expected compile outcomes
/// rv compiles --random N --seed S --out F   random accepted programs -> events for TraceCompile
/// rv compiles --ladder "n1,n2,.." --engines jit,cl --report R
fn cmd_compiles(args: &[String]) -> i32 {
    exec::calibrate_helpers();
    if let Some(path) = arg(args, "--cases") {
        let report_path = arg(args, "--report").expect("--report");
        let recs: Vec<Value> = read_ndjson(path);
        let results = run_isolated(&recs, 60000, compile::run_compile_record);
        let mut accepted_by_real = 0u64;
        let mut fails = Vec::new();
        let mut nfail = 0u64;
        let mut compilations = 0u64;
        let mut samples = Vec::new();
        for (rec, r) in recs.iter().zip(results.iter()) {
            let (bad, obs) = match r {
                ChildResult::Done(v) => (compile::judge_compile_record(rec, v), v.clone()),
                ChildResult::Signal(s) => (vec![format!("compilation killed the process (signal {s})")], json!({"signal": s})),
                ChildResult::Timeout => (vec!["compilation timed out".to_string()], json!({})),
                ChildResult::Exit(c) => (vec![format!("process exited {c}")], json!({})),
            };
            compilations += 2 * arr(&obs["obs"]).len() as u64;
            if obs["rejected"] != json!(true) {
                accepted_by_real += 1;
            }
            if bad.is_empty() {
                if samples.len() < 2 {
                    samples.push(json!({"record": rec, "observed": obs}));
                }
            } else {
                nfail += 1;
                if fails.len() < 200 {
                    fails.push(json!({"record": rec, "observed": obs, "reason": bad.join(" | ")}));
                }
            }
        }
        let report = json!({"programs": recs.len(), "accepted_by_real_verifier": accepted_by_real, "compilations": compilations, "fail": nfail, "failures": fails, "samples": samples});
        std::fs::write(report_path, serde_json::to_string(&report).unwrap()).unwrap();
        println!("compiles: {} accepted programs, {} compilations, {} failing programs", recs.len(), compilations, nfail);
        return 0;
    }
    if let Some(n) = arg(args, "--random") {
        let n: usize = n.parse().unwrap();
        let seed: u64 = arg(args, "--seed").map(|s| s.parse().unwrap()).unwrap_or(1);
        let out = arg(args, "--out").expect("--out");
        let jobs = compile::gen_jobs(seed, 3 * n + 10);
        let results = run_isolated(&jobs, 60000, compile::run_random_compile);
        use std::io::Write;
        let mut f = std::fs::File::create(out).unwrap();
        let mut progs = 0usize;
        let mut events = 0usize;
        let mut crashed = Vec::new();
        for (job, r) in jobs.iter().zip(results.iter()) {
            if progs >= n {
                break;
            }
            match r {
                ChildResult::Done(v) => {
                    if v["rejected"] == json!(true) {
                        continue;
                    }
                    progs += 1;
                    for e in arr(&v["events"]) {
                        writeln!(f, "{}", serde_json::to_string(&e).unwrap()).unwrap();
                        events += 1;
                    }
                }
                ChildResult::Signal(s) => crashed.push(json!({"case": job["case"], "how": format!("signal {s}")})),
                ChildResult::Timeout => crashed.push(json!({"case": job["case"], "how": "timeout"})),
                ChildResult::Exit(c) => crashed.push(json!({"case": job["case"], "how": format!("exit {c}")})),
            }
        }
        std::fs::write(format!("{out}.summary.json"), serde_json::to_string(&json!({"programs": progs, "events": events, "crashed": crashed})).unwrap()).unwrap();
        println!("compiles --random: {progs} programs, {events} compile events, {} crashed", crashed.len());
        return 0;
    }
    if let Some(l) = arg(args, "--ladder") {
        let report_path = arg(args, "--report").expect("--report");
        let engines: Vec<&str> = arg(args, "--engines").unwrap_or("jit,cl").split(',').collect();
        let timeout: i32 = arg(args, "--timeout-ms").map(|s| s.parse().unwrap()).unwrap_or(120000);
        let mut jobs = Vec::new();
        for n in l.split(',') {
            let n: u64 = n.parse().unwrap();
            for e in &engines {
                let kinds: &[&str] = if *e == "jit" { &["raw", "mbuff", "fixed"] } else { &["raw"] };
                for k in kinds {
                    jobs.push(json!({"n": n, "vm": k, "engine": e}));
                }
            }
        }
        let results = run_isolated(&jobs, timeout, compile::run_ladder);
        let mut rows = Vec::new();
        for (job, r) in jobs.iter().zip(results.iter()) {
            rows.push(match r {
                ChildResult::Done(v) => v.clone(),
                ChildResult::Signal(s) => json!({"n": job["n"], "vm": job["vm"], "engine": job["engine"], "res": format!("signal {s}")}),
                ChildResult::Timeout => json!({"n": job["n"], "vm": job["vm"], "engine": job["engine"], "res": "timeout"}),
                ChildResult::Exit(c) => json!({"n": job["n"], "vm": job["vm"], "engine": job["engine"], "res": format!("exit {c}")}),
            });
        }
        std::fs::write(report_path, serde_json::to_string(&json!({"rows": rows})).unwrap()).unwrap();
        println!("compiles --ladder: {} rows", rows.len());
        return 0;
    }
    2
}

/// rv texts --cases F --report R [--only asm|disasm|roundtrip]: replay asm / disasm records.
fn cmd_texts(args: &[String]) -> i32 {
    let cases_path = arg(args, "--cases").expect("--cases");
    let report_path = arg(args, "--report").expect("--report");
    let recs = read_ndjson(cases_path);
    let results = run_isolated(&recs, 10000, text::run_text);
    let mut pass = 0u64;
    let mut nfail = 0u64;
    let mut fails = Vec::new();
    let mut samples = Vec::new();
    for (rec, r) in recs.iter().zip(results.iter()) {
        let (bad, obs) = match r {
            ChildResult::Done(v) => (text::judge_text(rec, v), v.clone()),
            ChildResult::Signal(s) => (vec![format!("process killed by signal {s}")], json!({"signal": s})),
            ChildResult::Timeout => (vec!["no answer within 10 s (not total / unbounded time)".to_string()], json!({"timeout": true})),
            ChildResult::Exit(c) => (vec![format!("process exited {c}")], json!({"exit": c})),
        };
        if bad.is_empty() {
            pass += 1;
            if samples.len() < 3 {
                samples.push(json!({"record": rec, "observed": obs}));
            }
        } else {
            nfail += 1;
            if fails.len() < 300 {
                fails.push(json!({"record": rec, "observed": obs, "reason": bad.join(" | ")}));
            }
        }
    }
    let report = json!({"records": recs.len(), "pass": pass, "fail": nfail, "failures": fails, "samples": samples});
    std::fs::write(report_path, serde_json::to_string(&report).unwrap()).unwrap();
    println!("texts: {} records, {} pass, {} fail", recs.len(), pass, nfail);
    0
}

/// rv fuzz-asm --seed S --n N --report R
fn cmd_fuzz_asm(args: &[String]) -> i32 {
    let seed: u64 = arg(args, "--seed").map(|s| s.parse().unwrap()).unwrap_or(1);
    let n: usize = arg(args, "--n").map(|s| s.parse().unwrap()).unwrap_or(1000);
    let report_path = arg(args, "--report").expect("--report");
    let mut r = Rng::new(seed ^ 0xc14);
    let mut inputs: Vec<Value> = text::systematic_inputs().into_iter().map(|s| json!(s)).collect();
    let systematic = inputs.len();
    inputs.extend((0..n).map(|_| json!(text::gen_fuzz_input(&mut r))));
    let n = inputs.len();
    let results = run_isolated(&inputs, 5000, text::run_fuzz);
    let mut ok = 0u64;
    let mut err = 0u64;
    let mut fails = Vec::new();
    let mut distinct = std::collections::BTreeSet::new();
    for (inp, res) in inputs.iter().zip(results.iter()) {
        distinct.insert(inp.as_str().unwrap().to_string());
        let bad = match res {
            ChildResult::Done(v) => match v["k"].as_str().unwrap() {
                "ok" => { ok += 1; None }
                "err" => { err += 1; None }
                _ => Some(format!("assemble panicked: {}", v["msg"])),
            },
            ChildResult::Signal(s) => Some(format!("process killed by signal {s}")),
            ChildResult::Timeout => Some("no answer within 5 s".to_string()),
            ChildResult::Exit(c) => Some(format!("process exited {c}")),
        };
        if let Some(b) = bad {
            if fails.len() < 100 {
                fails.push(json!({"input": inp, "reason": b}));
            }
        }
    }
    let samples: Vec<&Value> = inputs.iter().take(3).collect();
    let report = json!({"inputs": n, "systematic": systematic, "distinct": distinct.len(), "ok": ok, "err": err, "fail": fails.len(), "failures": fails, "samples": samples});
    std::fs::write(report_path, serde_json::to_string(&report).unwrap()).unwrap();
    println!("fuzz-asm: {n} inputs, {ok} ok, {err} err, {} failing", report["fail"]);
    0
}

/// rv words --cases F --report R      MC_Word64 records against native u64 / i64 arithmetic
fn cmd_words(args: &[String]) -> i32 {
    let recs = read_ndjson(arg(args, "--cases").expect("--cases"));
    let report_path = arg(args, "--report").expect("--report");
    let mut fails = Vec::new();
    for r in &recs {
        let bad = words::judge(r);
        if !bad.is_empty() && fails.len() < 50 {
            fails.push(json!({"record": r, "reason": bad.join(" | ")}));
        }
    }
    std::fs::write(report_path, serde_json::to_string(&json!({"pairs": recs.len(), "fail": fails.len(), "failures": fails})).unwrap()).unwrap();
    println!("words: {} operand pairs, {} disagreeing", recs.len(), fails.len());
    0
}

/// rv encs --cases F --report R [--sweep-imm]
fn cmd_encs(args: &[String]) -> i32 {
    let report_path = arg(args, "--report").expect("--report");
    if args.iter().any(|a| a == "--sweep-imm") {
        let (n, bad) = enc::sweep_imm();
        std::fs::write(report_path, serde_json::to_string(&json!({"immediates": n, "bad": bad})).unwrap()).unwrap();
        println!("encs --sweep-imm: {n} immediates, {} bad", bad.len());
        return 0;
    }
    let recs = read_ndjson(arg(args, "--cases").expect("--cases"));
    // pure functions: batches of 500 per child job keep the pipe traffic low
    let batches: Vec<Value> = recs.chunks(500).map(|c| Value::Array(c.to_vec())).collect();
    let results = run_isolated(&batches, 60000, |b| {
        Value::Array(arr(b).iter().map(enc::run_enc).collect())
    });
    let mut pass = 0u64;
    let mut fails = Vec::new();
    let mut nfail = 0u64;
    let mut samples = Vec::new();
    for (b, r) in batches.iter().zip(results.iter()) {
        let rs = arr(b);
        match r {
            ChildResult::Done(v) => {
                for (rec, o) in rs.iter().zip(arr(v).iter()) {
                    let bad = arr(&o["bad"]);
                    if bad.is_empty() {
                        pass += 1;
                        if samples.len() < 3 { samples.push(rec.clone()); }
                    } else {
                        nfail += 1;
                        if fails.len() < 300 {
                            fails.push(json!({"record": rec, "reason": bad.iter().map(|x| x.as_str().unwrap_or("").to_string()).collect::<Vec<_>>().join(" | ")}));
                        }
                    }
                }
            }
            _ => {
                nfail += rs.len() as u64;
                fails.push(json!({"record": rs[0], "reason": "the batch crashed the process"}));
            }
        }
    }
    // long programs through one builder object
    let sizes: Vec<usize> = vec![1, 4096, 65536, 124_999, 125_000, 131_072, 200_000];
    let long = run_isolated(&sizes, 120000, |n| json!(enc::builder_long(*n)));
    for (n, r) in sizes.iter().zip(long.iter()) {
        let bad: Vec<String> = match r {
            ChildResult::Done(v) => arr(v).iter().map(|x| x.as_str().unwrap_or("").to_string()).collect(),
            _ => vec![format!("building a program of {} instructions crashed the process", n + 1)],
        };
        if bad.is_empty() {
            pass += 1;
        } else {
            nfail += 1;
            fails.push(json!({"record": {"kind": "builder-long", "instructions": n + 1}, "reason": bad.join(" | ")}));
        }
    }
    let report = json!({"records": recs.len() + sizes.len(), "pass": pass, "fail": nfail, "failures": fails, "samples": samples});
    std::fs::write(report_path, serde_json::to_string(&report).unwrap()).unwrap();
    println!("encs: {} records, {} pass, {} fail", recs.len() + sizes.len(), pass, nfail);
    0
}

/// rv helpers --cases F --report R   |   rv helpers --observe --seed S --n N --out F
fn cmd_helpers(args: &[String]) -> i32 {
    if args.iter().any(|a| a == "--observe") {
        let seed: u64 = arg(args, "--seed").map(|s| s.parse().unwrap()).unwrap_or(1);
        let n: usize = arg(args, "--n").map(|s| s.parse().unwrap()).unwrap_or(200);
        let out = arg(args, "--out").expect("--out");
        let ev = helpers::observe(seed, n);
        use std::io::Write;
        let mut f = std::fs::File::create(out).unwrap();
        for e in &ev {
            writeln!(f, "{}", serde_json::to_string(e).unwrap()).unwrap();
        }
        println!("helpers --observe: {} events", ev.len());
        return 0;
    }
    let report_path = arg(args, "--report").expect("--report");
    let recs = read_ndjson(arg(args, "--cases").expect("--cases"));
    let batches: Vec<Value> = recs.chunks(200).map(|c| Value::Array(c.to_vec())).collect();
    let results = run_isolated(&batches, 60000, |b| Value::Array(arr(b).iter().map(helpers::run_helper).collect()));
    let mut pass = 0u64;
    let mut nfail = 0u64;
    let mut fails = Vec::new();
    let mut samples = Vec::new();
    for (b, r) in batches.iter().zip(results.iter()) {
        let rs = arr(b);
        match r {
            ChildResult::Done(v) => {
                for (rec, o) in rs.iter().zip(arr(v).iter()) {
                    let bad = arr(&o["bad"]);
                    if bad.is_empty() {
                        pass += 1;
                        if samples.len() < 3 { samples.push(rec.clone()); }
                    } else {
                        nfail += 1;
                        if fails.len() < 300 {
                            fails.push(json!({"record": rec, "reason": bad.iter().map(|x| x.as_str().unwrap_or("").to_string()).collect::<Vec<_>>().join(" | ")}));
                        }
                    }
                }
            }
            _ => {
                nfail += rs.len() as u64;
                fails.push(json!({"record": rs[0], "reason": "a helper call in this batch crashed the process"}));
            }
        }
    }
    let report = json!({"records": recs.len(), "pass": pass, "fail": nfail, "failures": fails, "samples": samples});
    std::fs::write(report_path, serde_json::to_string(&report).unwrap()).unwrap();
    println!("helpers: {} records, {} pass, {} fail", recs.len(), pass, nfail);
    0
}

/// rv xadd --seed S --configs N --count C --out F: concurrent atomic-add stress, one event per configuration
fn cmd_xadd(args: &[String]) -> i32 {
    let seed: u64 = arg(args, "--seed").map(|s| s.parse().unwrap()).unwrap_or(1);
    let n: usize = arg(args, "--configs").map(|s| s.parse().unwrap()).unwrap_or(12);
    let count: u64 = arg(args, "--count").map(|s| s.parse().unwrap()).unwrap_or(20000);
    let out = arg(args, "--out").expect("--out");
    let mut r = Rng::new(seed ^ 0xc18);
    let mixes: Vec<Vec<&str>> = vec![
        vec!["interp", "interp"], vec!["jit", "jit"], vec!["cl", "cl"], vec!["interp", "jit"], vec!["interp", "cl"], vec!["jit", "cl"],
        vec!["interp", "jit", "cl", "jit"], vec!["jit", "jit", "jit", "jit"], vec!["interp", "interp", "interp", "interp"],
        vec!["interp", "jit", "cl", "interp", "jit", "cl", "jit", "cl"],
        vec!["jit"; 16], vec!["interp", "jit", "cl", "jit", "interp", "cl", "jit", "jit", "cl", "interp", "jit", "cl", "jit", "interp", "cl", "jit"],
    ];
    let mut jobs = Vec::new();
    for k in 0..n {
        let mix = &mixes[k % mixes.len()];
        let width = if (k / mixes.len() + k) % 2 == 0 { 4 } else { 8 };
        let woff = *r.pick(&[8u64, 16, 24, 32, 40]) + if width == 4 && r.chance(1, 2) { 4 } else { 0 };
        jobs.push(json!({"width": width, "count": count, "engines": mix, "word_offset": woff, "pair_rotation": 3 * k + (seed as usize)}));
    }
    let results = run_isolated(&jobs, 120000, xadd::run_config);
    use std::io::Write;
    let mut f = std::fs::File::create(out).unwrap();
    let mut crashed = Vec::new();
    let mut events = 0;
    for (job, res) in jobs.iter().zip(results.iter()) {
        match res {
            ChildResult::Done(v) => {
                writeln!(f, "{}", serde_json::to_string(v).unwrap()).unwrap();
                events += 1;
            }
            ChildResult::Signal(s) => crashed.push(json!({"config": job, "how": format!("signal {s}")})),
            ChildResult::Timeout => crashed.push(json!({"config": job, "how": "timeout"})),
            ChildResult::Exit(c) => crashed.push(json!({"config": job, "how": format!("exit {c}")})),
        }
    }
    std::fs::write(format!("{out}.summary.json"), serde_json::to_string(&json!({"configs": jobs.len(), "events": events, "crashed": crashed})).unwrap()).unwrap();
    println!("xadd: {} configurations, {} events, {} crashed", jobs.len(), events, crashed.len());
    0
}

/// rv render --cases F --out G [--fuzz N --seed S]: corpus of assembler texts (rendered token
/// programs, plus seeded fuzz strings) for the C20 transcripts.
fn cmd_render(args: &[String]) -> i32 {
    let out = arg(args, "--out").expect("--out");
    use std::io::Write;
    let mut f = std::fs::File::create(out).unwrap();
    let mut n = 0usize;
    if let Some(c) = arg(args, "--cases") {
        for r in read_ndjson(c) {
            if r["kind"] == "asm" {
                writeln!(f, "{}", serde_json::to_string(&json!({"t": "asm", "text": text::render_prog(&r["prog"])})).unwrap()).unwrap();
                n += 1;
            }
        }
    }
    if let Some(k) = arg(args, "--fuzz") {
        let mut r = Rng::new(arg(args, "--seed").map(|s| s.parse().unwrap()).unwrap_or(1) ^ 0xc20);
        for _ in 0..k.parse::<usize>().unwrap() {
            writeln!(f, "{}", serde_json::to_string(&json!({"t": "asm", "text": text::gen_fuzz_input(&mut r)})).unwrap()).unwrap();
            n += 1;
        }
    }
    println!("render: {n} texts");
    0
}
