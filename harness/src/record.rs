//! Direction A: drive the real interpreter with seeded random programs and record every step
//! through the H1 hook; the NDJSON trace is validated against Machine.tla by TLC (TraceInterp).

use crate::exec::{self};
use crate::util::*;
use serde_json::{json, Value};
use std::cell::RefCell;
use std::rc::Rc;

const PKT_END: u64 = 0x0000_1000_0010_0000;
const MBUF_END: u64 = 0x0000_1000_0020_0000;

fn insn(opc: u8, dst: u8, src: u8, off: i16, imm: i32) -> Value {
    json!([1, [opc, dst, src, off, imm]])
}

const ALU_OPS: [u8; 13] = [0x00, 0x10, 0x20, 0x30, 0x40, 0x50, 0x60, 0x70, 0x80, 0x90, 0xa0, 0xb0, 0xc0];
const JMP_OPS: [u8; 11] = [0x10, 0x20, 0x30, 0x40, 0x50, 0x60, 0x70, 0xa0, 0xb0, 0xc0, 0xd0];
const IMMS: [i32; 16] = [0, 1, -1, 2, 7, 31, 32, 33, 63, 64, 255, 256, -128, 65535, i32::MAX, i32::MIN];
const WORDS: [u64; 12] = [0, 1, 2, 0x7fff_ffff, 0x8000_0000, 0xffff_ffff, 0x1_0000_0000, u64::MAX,
                          0x8000_0000_0000_0000, 0x7fff_ffff_ffff_ffff, 0x1122_3344_5566_7788, 0xffff_ffff_0000_0000];

fn rnd_imm(r: &mut Rng) -> i32 {
    if r.chance(1, 3) { r.next() as i32 } else { *r.pick(&IMMS) }
}
fn rnd_word(r: &mut Rng) -> u64 {
    if r.chance(1, 3) { r.next() } else { *r.pick(&WORDS) }
}
fn lddw(out: &mut Vec<(u8, u8, u8, i16, i32)>, d: u8, v: u64) {
    out.push((0x18, d, 0, 0, v as u32 as i32));
    out.push((0, 0, 0, 0, (v >> 32) as u32 as i32));
}

/// A structured program: registers initialised, pointers kept valid, forward branches, a counted
/// loop, packet / stack traffic, helper and local calls.  Terminates by construction.
fn gen_structured(r: &mut Rng, pkt_len: usize, helpers: &[i32]) -> Vec<(u8, u8, u8, i16, i32)> {
    let mut p: Vec<(u8, u8, u8, i16, i32)> = Vec::new();
    // r6 = packet pointer copy (r1), r7..r9 and r0,r2..r5 scalars
    p.push((0xbf, 6, 1, 0, 0));
    for d in [0u8, 2, 3, 4, 5, 7, 8, 9] {
        lddw(&mut p, d, rnd_word(r));
    }
    let body = 4 + r.below(28) as usize;
    let mut k = 0;
    while k < body {
        let choice = r.below(100);
        let d = *r.pick(&[0u8, 2, 3, 4, 5, 7, 8, 9]);
        let s = *r.pick(&[0u8, 2, 3, 4, 5, 7, 8, 9]);
        if choice < 45 {
            // ALU
            let op = *r.pick(&ALU_OPS);
            let cls = if r.chance(1, 2) { 0x07 } else { 0x04 };
            if op == 0x80 {
                p.push((op | cls, d, 0, 0, 0));
            } else if r.chance(1, 2) {
                p.push((op | cls | 0x08, d, s, 0, 0));
            } else {
                p.push((op | cls, d, s, 0, rnd_imm(r)));
            }
        } else if choice < 50 {
            let w = *r.pick(&[16, 32, 64]);
            p.push((if r.chance(1, 2) { 0xd4 } else { 0xdc }, d, 0, 0, w));
        } else if choice < 62 && pkt_len >= 8 {
            // packet traffic through r6 (valid offsets)
            let sz = *r.pick(&[(0x10u8, 1usize), (0x08, 2), (0x00, 4), (0x18, 8)]);
            let off = r.below((pkt_len - sz.1 + 1) as u64) as i16;
            match r.below(3) {
                0 => p.push((0x61 | sz.0, d, 6, off, 0)),
                1 => p.push((0x63 | sz.0, 6, s, off, 0)),
                _ => p.push((0x62 | sz.0, 6, 0, off, rnd_imm(r))),
            }
        } else if choice < 74 {
            // stack traffic: store then load so that nothing undefined is read
            let sz = *r.pick(&[(0x10u8, 1i16), (0x08, 2), (0x00, 4), (0x18, 8)]);
            let off = -((1 + r.below(32)) as i16) * 8;
            p.push((0x7b, 10, s, off, 0));
            p.push((0x63 | sz.0, 10, s, off + r.below((8 / sz.1) as u64) as i16 * sz.1, 0));
            p.push((0x61 | sz.0, d, 10, off, 0));
        } else if choice < 84 {
            // forward conditional branch over 1..3 simple instructions
            let op = *r.pick(&JMP_OPS);
            let cls = if r.chance(1, 2) { 0x05 } else { 0x06 };
            let skip = 1 + r.below(3) as i16;
            if r.chance(1, 2) {
                p.push((op | cls | 0x08, d, s, skip, 0));
            } else {
                p.push((op | cls, d, 0, skip, rnd_imm(r)));
            }
            for _ in 0..skip {
                p.push((0x07, d, 0, 0, rnd_imm(r)));
            }
        } else if choice < 90 && !helpers.is_empty() {
            let id = *r.pick(helpers);
            if pkt_len >= 9 && r.chance(1, 3) {
                // "poke": the helper stores the low n bytes of r2 at r1 (a pointer into what r6
                // points to); later loads and the final memory image must show them
                let n = 1 + r.below(8) as usize;
                p.push((0xbf, 1, 6, 0, 0));
                p.push((0x07, 1, 0, 0, r.below((pkt_len - n + 1) as u64) as i32));
                p.push((0xbf, 2, 8, 0, 0));
                p.push((0xb7, 3, 0, 0, exec::POKE_MAGIC as i32));
                p.push((0xb7, 4, 0, 0, n as i32));
            } else {
                p.push((0xbf, 1, 7, 0, 0));
                p.push((0xbf, 2, 8, 0, 0));
                p.push((0xbf, 3, 9, 0, 0));
                p.push((0xb7, 4, 0, 0, rnd_imm(r)));
            }
            p.push((0xb7, 5, 0, 0, rnd_imm(r)));
            p.push((0x85, 0, 0, 0, id));
            // r1-r5 are undefined now: redefine the ones the generator uses
            for dd in [2u8, 3, 4, 5] {
                p.push((0xb7, dd, 0, 0, rnd_imm(r)));
            }
        } else if choice < 95 {
            // counted loop: r5 = n; body; r5 -= 1; jne r5, 0, -k
            let n = 1 + r.below(5) as i32;
            p.push((0xb7, 5, 0, 0, n));
            p.push((0x0f, 0, 7, 0, 0));
            p.push((0x07, 5, 0, 0, -1));
            p.push((0x55, 5, 0, -3, 0));
        } else if pkt_len >= 4 {
            p.push((0x20 | *r.pick(&[0x10u8, 0x08, 0x00]), 0, 0, 0, r.below((pkt_len - 3) as u64) as i32));
        }
        k += 1;
    }
    // optional chain of local functions (depth 1..4): main calls f1, f1 may call f2, ...
    // each function uses its own stack slot and callee-saved registers, may call a helper
    if r.chance(1, 2) {
        let depth = 1 + r.below(4) as usize;
        // main: callx +1 ; exit
        p.push((0x85, 0, 1, 0, 1));
        p.push((0x95, 0, 0, 0, 0));
        for k in 0..depth {
            let last = k + 1 == depth;
            let mut f: Vec<(u8, u8, u8, i16, i32)> = Vec::new();
            f.push((0xb7, 6, 0, 0, rnd_imm(r)));            // r6 = const (callee-saved, restored for the caller)
            f.push((0x7b, 10, 7, -8, 0));                    // [r10-8] = r7
            f.push((0x0f, 7, 6, 0, 0));                      // r7 += r6
            if !helpers.is_empty() && r.chance(1, 2) {
                let id = *r.pick(helpers);
                for (dd, ss) in [(1u8, 7u8), (2, 8), (3, 9), (4, 6), (5, 6)] {
                    f.push((0xbf, dd, ss, 0, 0));
                }
                f.push((0x85, 0, 0, 0, id));
                f.push((0x0f, 8, 0, 0, 0));                  // r8 += helper result
            }
            if !last {
                f.push((0x85, 0, 1, 0, 0));                  // callx next (displacement fixed below)
            }
            f.push((0x79, 2, 10, -8, 0));                    // r2 = [r10-8]
            f.push((0xbf, 0, 2, 0, 0));                      // r0 = r2
            f.push((0x0f, 0, 6, 0, 0));                      // r0 += r6
            f.push((0x0f, 0, 8, 0, 0));                      // r0 += r8
            f.push((0x95, 0, 0, 0, 0));
            if !last {
                // the callee starts right after this function
                let call_idx = f.iter().position(|i| i.0 == 0x85 && i.2 == 1).unwrap();
                f[call_idx].4 = (f.len() - call_idx - 1) as i32;
            }
            p.extend(f);
        }
        return p;
    }
    p.push((0x95, 0, 0, 0, 0));
    p
}

/// An arbitrary program over the supported opcodes with arbitrary fields, repaired just enough
/// to have a chance with the verifier (targets inside, widths, last instruction).
fn gen_arbitrary(r: &mut Rng, helpers: &[i32]) -> Vec<(u8, u8, u8, i16, i32)> {
    let ops: Vec<u8> = (0u16..256).map(|o| o as u8).filter(|o| supported(*o)).collect();
    let n = 1 + r.below(20) as usize;
    let mut p: Vec<(u8, u8, u8, i16, i32)> = Vec::new();
    while p.len() < n {
        let o = *r.pick(&ops);
        let store_class = matches!(o & 7, 2 | 3);
        let d = if store_class && r.chance(1, 3) { 10 } else { r.below(10) as u8 };
        let s = r.below(11) as u8;
        let off = if r.chance(1, 2) { (r.below(64) as i16) - 32 } else { r.next() as i16 };
        let mut imm = rnd_imm(r);
        if o == 0xd4 || o == 0xdc {
            imm = *r.pick(&[16, 32, 64]);
        }
        if o == 0xc3 || o == 0xdb {
            imm = 0;
        }
        if o == 0x85 {
            if r.chance(1, 2) {
                p.push((o, 0, 0, 0, if helpers.is_empty() || r.chance(1, 4) { rnd_imm(r) } else { *r.pick(helpers) }));
            } else {
                p.push((o, 0, 1, 0, 0)); // target fixed up below
            }
            continue;
        }
        if o == 0x18 {
            p.push((o, r.below(10) as u8, s, off, imm));
            p.push((0, 0, 0, 0, rnd_imm(r)));
            continue;
        }
        p.push((o, d, s, off, imm));
    }
    p.push(if r.chance(3, 4) { (0x95, 0, 0, 0, 0) } else { (0x05, 0, 0, 0, 0) });
    // fix up control flow targets
    let len = p.len() as i64;
    let second: Vec<bool> = (0..p.len()).map(|k| k > 0 && p[k - 1].0 == 0x18 && p[k].0 == 0).collect();
    for k in 0..p.len() {
        if second[k] {
            continue;
        }
        let o = p[k].0;
        let is_jump = o == 0x05 || ((o & 7 == 5 || o & 7 == 6) && o != 0x85 && o != 0x95 && o != 0x8d);
        let is_lcall = o == 0x85 && p[k].2 == 1;
        if is_jump || is_lcall {
            // pick a legal target different from the jump itself
            for _ in 0..20 {
                let t = r.below(len as u64) as i64;
                if second[t as usize] || (is_jump && t == k as i64) {
                    continue;
                }
                let disp = t - (k as i64 + 1);
                if is_jump {
                    p[k].3 = disp as i16;
                } else {
                    p[k].4 = disp as i32;
                }
                break;
            }
        }
    }
    p
}

pub fn supported(o: u8) -> bool {
    let cls = o & 7;
    let op = o >> 4;
    let srcbit = (o >> 3) & 1;
    match cls {
        0 => matches!(o, 0x18 | 0x20 | 0x28 | 0x30 | 0x38 | 0x40 | 0x48 | 0x50 | 0x58),
        1 => matches!(o, 0x61 | 0x69 | 0x71 | 0x79),
        2 => matches!(o, 0x62 | 0x6a | 0x72 | 0x7a),
        3 => matches!(o, 0x63 | 0x6b | 0x73 | 0x7b | 0xc3 | 0xdb),
        4 => op <= 12 && !(op == 8 && srcbit == 1) || o == 0xd4 || o == 0xdc,
        7 => op <= 12 && !(op == 8 && srcbit == 1),
        5 => o == 0x05 || o == 0x85 || o == 0x95 || ((1..=7).contains(&op) || (10..=13).contains(&op)),
        6 => (1..=7).contains(&op) || (10..=13).contains(&op),
        _ => false,
    }
}

/// Build one case (same JSON format as the TLC-generated ones).
pub fn gen_case(r: &mut Rng, idx: u64, mode: &str) -> Value {
    let kinds = ["raw", "raw", "mbuff", "fixed", "nodata"];
    let vm = *r.pick(&kinds);
    let pkt_len: usize = if vm == "nodata" { 0 } else { *r.pick(&[0usize, 8, 16, 33, 64]) };
    let pkt: Vec<u8> = (0..pkt_len).map(|k| (r.next() >> 8) as u8 ^ k as u8).collect();
    let mbuf_len: usize = if vm == "mbuff" { 32 } else { 0 };
    let mbuf: Vec<u8> = (0..mbuf_len).map(|k| 0x80 | k as u8).collect();
    let all_ids = [0i32, 1, 6, i32::MAX, i32::MIN, -1];
    let nh = r.below(4) as usize;
    let helpers: Vec<i32> = (0..nh).map(|_| *r.pick(&all_ids)).collect::<std::collections::BTreeSet<_>>().into_iter().collect();
    let structured = match mode {
        "structured" => true,
        "arbitrary" => false,
        _ => r.chance(1, 2),
    };
    let insns = if structured {
        let eff_len = if vm == "mbuff" { mbuf_len } else if vm == "fixed" { 16 } else { pkt_len };
        gen_structured(r, eff_len, &helpers)
    } else {
        gen_arbitrary(r, &helpers)
    };
    let prog: Vec<Value> = insns.iter().map(|i| insn(i.0, i.1, i.2, i.3, i.4)).collect();
    let calc = r.chance(1, 4);
    let fsz = if calc {
        json!({"dflt": *r.pick(&[0, 16, 64, 256, 512]), "tab": []})
    } else {
        json!({"dflt": 256, "tab": []})
    };
    json!({
        "id": ["rnd", idx, if structured { 1 } else { 0 }], "fam": "random", "vm": vm, "prog": prog,
        "pkt": {"base": word_json(PKT_END - pkt_len as u64), "bytes": bytes_json(&pkt)},
        "mbuf": {"base": word_json(MBUF_END - mbuf_len as u64), "bytes": bytes_json(&mbuf)},
        "fixed": [0, 8], "allow": [], "helpers": helpers, "calc": calc, "fsz": fsz,
        "budget": 400, "dev": [], "warm": 0, "wf": true,
    })
}

/// Run `case` on the interpreter with the step hook recording; returns the events of the run
/// (start, step*, helper*, end) or None if the verifier refused the program.  Runs in a child.
pub fn record_run(case: &Value) -> Value {
    let events: Rc<RefCell<Vec<Value>>> = Rc::new(RefCell::new(Vec::new()));
    let ev2 = events.clone();
    let budget = case["budget"].as_u64().unwrap_or(400);
    let mut steps = 0u64;
    // the 512 stack bytes as they are before the latest instruction; the last executed instruction
    // of a run (exit, a refused access, the instruction the budget refused) changes no memory, so
    // after the run this is the final stack
    let last_stack: Rc<RefCell<Vec<u8>>> = Rc::new(RefCell::new(Vec::new()));
    let ls2 = last_stack.clone();
    rbpf::verif::set_step_hook(Some(Box::new(move |pc, reg, depth, stack| {
        {
            let mut ls = ls2.borrow_mut();
            ls.clear();
            ls.extend_from_slice(unsafe { std::slice::from_raw_parts(stack, 512) });
        }
        steps += 1;
        if steps > budget {
            return false;
        }
        ev2.borrow_mut().push(json!({"e": "step", "pc": pc, "depth": depth,
            "regs": reg.iter().map(|x| word_json(*x)).collect::<Vec<_>>()}));
        true
    })));
    let ev3 = events.clone();
    exec::set_helper_observer(Some(Box::new(move |id, args, ret, wr| {
        ev3.borrow_mut().push(json!({"e": "helper", "id": id as i32,
            "args": args.iter().map(|x| word_json(*x)).collect::<Vec<_>>(), "ret": word_json(ret),
            "wr": wr.iter().map(|(a, b)| json!({"addr": word_json(*a), "bytes": b})).collect::<Vec<_>>()}));
    })));
    let obs = exec::run_case_with_hook(case, "interp", false);
    rbpf::verif::set_step_hook(None);
    exec::set_helper_observer(None);
    let evs = events.borrow().clone();
    if obs["k"] == "reject" {
        return json!({"rejected": true, "events": []});
    }
    // start event: real addresses come from the first step (r10 = stack top, r1 for the fixed VM)
    let mut out = Vec::new();
    if let Some(first) = evs.iter().find(|e| e["e"] == "step") {
        let regs = &first["regs"];
        let r10 = word(&regs[10]);
        out.push(json!({"e": "start", "case": case, "regs": regs, "stack": word_json(r10.wrapping_sub(512)),
                        "imbuf": regs[1]}));
    } else {
        // not a single instruction ran (budget 0 cannot happen; a panic before the loop would be in obs)
        out.push(json!({"e": "start", "case": case, "regs": (0..11).map(|_| word_json(0)).collect::<Vec<_>>(),
                        "stack": word_json(0), "imbuf": word_json(0), "norun": true}));
    }
    out.extend(evs);
    let mut end = json!({"e": "end", "k": obs["k"], "pkt": obs["pkt"], "mbuf": obs["mbuf"], "allow": obs["allow"],
                         "class": obs["class"], "msg": obs["msg"]});
    // C03 / C04, direction A: programs the interpreter ran to a value (all accesses were in bounds)
    // and that are defined by construction are also run on the compiled engines; the trace
    // specification demands equal results whenever IT judges the run defined.
    let structured = case["id"][2] == json!(1);
    for engine in ["jit", "cl"] {
        let mut r = json!({"k": "skipped", "val": word_json(0), "pkt": [], "mbuf": []});
        if structured && obs["k"] == "ok" && !(engine == "cl" && exec::has_local_call(case)) {
            let o = exec::run_case_with_hook(case, engine, false);
            r = json!({"k": o["k"], "val": if o["k"] == "ok" { o["val"].clone() } else { word_json(0) },
                       "pkt": if o["pkt"].is_null() { json!([]) } else { o["pkt"].clone() },
                       "mbuf": if o["mbuf"].is_null() { json!([]) } else { o["mbuf"].clone() }});
        }
        end[engine] = r;
    }
    end["val"] = if obs["k"] == "ok" { obs["val"].clone() } else { word_json(0) };
    end["stack"] = bytes_json(&last_stack.borrow());
    for f in ["class", "msg"] {
        if end[f].is_null() {
            end[f] = json!("");
        }
    }
    out.push(end);
    json!({"rejected": false, "events": out, "outcome": obs["k"]})
}
