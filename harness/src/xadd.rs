//! C18: concurrent atomic adds on one shared word from several threads, on any mix of engines.
//! The only thing recorded is what TraceXadd.tla validates: initial value, addends and counts,
//! final value, and the bytes around the word before and after.

use crate::util::*;
use serde_json::{json, Value};
use std::sync::{Arc, Barrier};

#[repr(align(64))]
struct Shared([u8; 128]);

/// (base register, source register) of the atomic add, per thread: every register is the base in
/// some thread and the source in another (an engine may encode the instruction differently
/// depending on the registers).
const PAIRS: [(u8, u8); 10] = [(1, 2), (7, 8), (6, 0), (9, 4), (3, 5), (0, 7), (2, 6), (5, 9), (8, 1), (4, 3)];

fn program(width: usize, addend: u64, count: u32, off: i16, via_r1: bool, addr: u64, rb: u8, rs: u8) -> Vec<u8> {
    // rB = address of the region (packet pointer for compiled engines, lddw for the interpreter)
    // rS = addend ; rC = count ; loop: xadd [rB+off], rS ; rC -= 1 ; jne rC, 0, -3 ; exit
    let rc = *[3u8, 4, 5].iter().find(|r| **r != rb && **r != rs).unwrap();
    let mut p: Vec<[u8; 8]> = Vec::new();
    if !via_r1 {
        p.push(encode_slot(0x18, rb, 0, 0, addr as u32 as i32));
        p.push(encode_slot(0, 0, 0, 0, (addr >> 32) as u32 as i32));
    } else if rb != 1 {
        p.push(encode_slot(0xbf, rb, 1, 0, 0));
    }
    p.push(encode_slot(0x18, rs, 0, 0, addend as u32 as i32));
    p.push(encode_slot(0, 0, 0, 0, (addend >> 32) as u32 as i32));
    p.push(encode_slot(0xb7, rc, 0, 0, count as i32));
    p.push(encode_slot(if width == 4 { 0xc3 } else { 0xdb }, rb, rs, off, 0));
    p.push(encode_slot(0x07, rc, 0, 0, -1));
    p.push(encode_slot(0x55, rc, 0, -3, 0));
    p.push(encode_slot(0xb7, 0, 0, 0, 0));
    p.push(encode_slot(0x95, 0, 0, 0, 0));
    p.concat()
}

/// One configuration: `engines[t]` runs `count` adds of addend_t.  Returns the event.
pub fn run_config(cfg: &Value) -> Value {
    let width = cfg["width"].as_u64().unwrap() as usize;
    let count = cfg["count"].as_u64().unwrap() as u32;
    let engines: Vec<String> = arr(&cfg["engines"]).iter().map(|e| e.as_str().unwrap().to_string()).collect();
    let woff = cfg["word_offset"].as_u64().unwrap() as usize;        // offset of the word in the region
    let rot = cfg["pair_rotation"].as_u64().unwrap_or(0) as usize;
    let shared = Box::leak(Box::new(Shared([0u8; 128])));
    for (k, b) in shared.0.iter_mut().enumerate() {
        *b = (k as u8).wrapping_mul(29).wrapping_add(7);
    }
    let base = shared.0.as_mut_ptr() as u64;
    let init = if width == 4 {
        u32::from_le_bytes(shared.0[woff..woff + 4].try_into().unwrap()) as u64
    } else {
        u64::from_le_bytes(shared.0[woff..woff + 8].try_into().unwrap())
    };
    let mut before = shared.0.to_vec();
    for b in before[woff..woff + width].iter_mut() {
        *b = 0;
    }
    let barrier = Arc::new(Barrier::new(engines.len()));
    let mut adds = Vec::new();
    let mut handles = Vec::new();
    for (t, e) in engines.iter().enumerate() {
        let addend: u64 = 0x9e37_79b9_7f4a_7c15u64.wrapping_mul(t as u64 + 1) | 1;
        let eff = if width == 4 { addend & 0xffff_ffff } else { addend };
        adds.push(json!([word_json(eff), word_json(count as u64)]));
        let e = e.clone();
        let b = barrier.clone();
        handles.push(std::thread::spawn(move || -> Result<u64, String> {
            let via_r1 = e != "interp";
            let (rb, rs) = PAIRS[(rot + t) % PAIRS.len()];
            let prog: &'static [u8] = Box::leak(program(width, addend, count, woff as i16, via_r1, base, rb, rs).into_boxed_slice());
            let mut vm = rbpf::EbpfVmRaw::new(Some(prog)).map_err(|x| x.to_string())?;
            let region: &'static mut [u8] = unsafe { std::slice::from_raw_parts_mut(base as *mut u8, 128) };
            match e.as_str() {
                "interp" => {
                    vm.register_allowed_memory(base..base + 128);
                    b.wait();
                    let own: &'static mut [u8] = Box::leak(vec![0u8; 8].into_boxed_slice());
                    vm.execute_program(own).map_err(|x| x.to_string())
                }
                "jit" => {
                    vm.jit_compile().map_err(|x| x.to_string())?;
                    b.wait();
                    unsafe { vm.execute_program_jit(region).map_err(|x| x.to_string()) }
                }
                _ => {
                    vm.cranelift_compile().map_err(|x| x.to_string())?;
                    b.wait();
                    vm.execute_program_cranelift(region).map_err(|x| x.to_string())
                }
            }
        }));
    }
    let mut ok = true;
    let mut errs = Vec::new();
    for h in handles {
        match h.join() {
            Ok(Ok(_)) => {}
            Ok(Err(m)) => { ok = false; errs.push(m); }
            Err(_) => { ok = false; errs.push("thread panicked".to_string()); }
        }
    }
    let fin = if width == 4 {
        u32::from_le_bytes(shared.0[woff..woff + 4].try_into().unwrap()) as u64
    } else {
        u64::from_le_bytes(shared.0[woff..woff + 8].try_into().unwrap())
    };
    let mut after = shared.0.to_vec();
    for b in after[woff..woff + width].iter_mut() {
        *b = 0;
    }
    json!({"width": width, "init": word_json(init), "adds": adds, "final": word_json(fin), "ok": ok, "errors": errs,
           "before": bytes_json(&before), "after": bytes_json(&after), "engines": engines, "count": count, "word_offset": woff,
           "regs": (0..engines.len()).map(|t| { let (a, b) = PAIRS[(rot + t) % PAIRS.len()]; json!([a, b]) }).collect::<Vec<_>>()})
}
