//! C10: random histories of VM API calls on a real VM object, recorded for TraceApi.tla.

use crate::exec::{self, Vm};
use crate::util::*;
use serde_json::{json, Value};

fn ins(opc: u8, dst: u8, src: u8, off: i16, imm: i32) -> [u8; 8] {
    encode_slot(opc, dst, src, off, imm)
}
fn cat(v: &[[u8; 8]]) -> &'static [u8] {
    Box::leak(v.concat().into_boxed_slice())
}

pub fn program(name: &str) -> &'static [u8] {
    match name {
        "P1" => cat(&[ins(0xb7, 0, 0, 0, 1), ins(0x95, 0, 0, 0, 0)]),
        "P2" => cat(&[ins(0xb7, 0, 0, 0, 2), ins(0x95, 0, 0, 0, 0)]),
        // dead atomic op with a non-zero immediate: refused by the default verifier, harmless
        "P3" => cat(&[ins(0x05, 0, 0, 1, 0), ins(0xc3, 10, 0, -8, 1), ins(0xb7, 0, 0, 0, 3), ins(0x95, 0, 0, 0, 0)]),
        "P4" => cat(&[ins(0xb7, 1, 0, 0, 5), ins(0xb7, 2, 0, 0, 0), ins(0xb7, 3, 0, 0, 0), ins(0xb7, 4, 0, 0, 0),
                      ins(0xb7, 5, 0, 0, 0), ins(0x85, 0, 0, 0, 1), ins(0x95, 0, 0, 0, 0)]),
        "P5" => cat(&[ins(0xbf, 1, 10, 0, 0), ins(0x85, 0, 1, 0, 1), ins(0x95, 0, 0, 0, 0),
                      ins(0xbf, 0, 1, 0, 0), ins(0x1f, 0, 10, 0, 0), ins(0x95, 0, 0, 0, 0)]),
        "P7" => cat(&[ins(0x30, 0, 0, 0, 0), ins(0x95, 0, 0, 0, 0)]),
        "P8" => cat(&[ins(0x79, 0, 1, 0x50, 0), ins(0x79, 2, 1, 0x40, 0), ins(0x1f, 0, 2, 0, 0), ins(0x95, 0, 0, 0, 0)]),
        "P9" => cat(&[ins(0x79, 0, 1, 0x40, 0), ins(0x95, 0, 0, 0, 0)]),
        "PX" => cat(&[[0xff; 8]]),
        _ => panic!("program {name}"),
    }
}

fn accept_all(_p: &[u8]) -> Result<(), std::io::Error> {
    Ok(())
}
fn reject_all(_p: &[u8]) -> Result<(), std::io::Error> {
    Err(std::io::Error::other("reject-all verifier"))
}
fn custom(p: &[u8]) -> Result<(), std::io::Error> {
    if !p.is_empty() && p[0] == 0xb7 { Ok(()) } else { Err(std::io::Error::other("custom verifier: first instruction must be mov64 imm")) }
}
fn calc64(_p: &[u8], _pc: usize, _d: &mut dyn std::any::Any) -> u16 {
    64
}

fn layout(name: &str) -> (usize, usize) {
    match name {
        "A" => (0x40, 0x50),
        "C" => (0x48, 0x50),
        _ => panic!("layout {name}"),
    }
}

const PA_BASE: u64 = 0x0000_1000_0010_0000 - 16;
const PB_BASE: u64 = 0x0000_1000_0050_0000;
const MB_BASE: u64 = 0x0000_1000_0020_0000 - 32;

/// One random history on one VM kind; returns its events.  Runs in a child process.
pub fn run_history(job: &Value) -> Value {
    let kind = job["kind"].as_str().unwrap();
    let seed = job["seed"].as_u64().unwrap();
    let len = job["len"].as_u64().unwrap() as usize;
    let mut r = Rng::new(seed);
    exec::set_helper_id(0, 1);
    let mut progs: Vec<&str> = vec!["P1", "P2", "P3", "P4", "P5", "PX"];
    if kind != "nodata" {
        progs.push("P7");
    }
    if kind == "fixed" {
        progs.push("P8");
        progs.push("P9");
    }
    let layouts: Vec<&str> = if kind == "fixed" { vec!["A", "C"] } else { vec!["A"] };
    let pa = FixedBuf::new(PA_BASE, &{ let mut v = vec![0x11u8; 16]; v[1] = 1; v }).unwrap();
    let pb = FixedBuf::new(PB_BASE, &{ let mut v = vec![0x22u8; 24]; v[1] = 2; v }).unwrap();
    let mb = FixedBuf::new(MB_BASE, &[0x33u8; 32]).unwrap();
    let mut events: Vec<Value> = Vec::new();

    // new(None) or new(Some(p))
    let first: Option<&str> = if r.chance(1, 2) { None } else { Some(*r.pick(&progs)) };
    let made = std::panic::catch_unwind(|| Vm::new(kind, first.map(program), layout("A")));
    let mut vm = match made {
        Ok(Ok(vm)) => {
            events.push(json!({"e": "new", "arg": first.unwrap_or("none"), "res": "ok"}));
            vm
        }
        Ok(Err(_)) => {
            events.push(json!({"e": "new", "arg": first.unwrap_or("none"), "res": "err"}));
            return json!({"events": events});
        }
        Err(e) => {
            events.push(json!({"e": "new", "arg": first.unwrap_or("none"), "res": format!("panic:{}", panic_msg(e))}));
            return json!({"events": events});
        }
    };
    let mut under_accept_all = false;
    let mut loaded_px = false;
    let mut cur: Option<&str> = if events[0]["res"] == "ok" { first } else { None };
    for _ in 0..len {
        let choice = r.below(100);
        let (op, arg, res): (&str, Value, String);
        let call = |f: &mut dyn FnMut() -> Result<String, String>| -> String {
            match std::panic::catch_unwind(std::panic::AssertUnwindSafe(|| f())) {
                Ok(Ok(s)) => s,
                Ok(Err(_)) => "err".to_string(),
                Err(e) => format!("panic:{}", panic_msg(e)),
            }
        };
        if choice < 25 {
            let mut p = *r.pick(&progs);
            if under_accept_all && p == "PX" {
                p = "P1"; // never load the unsafe program under accept-all
            }
            let lay = *r.pick(&layouts);
            op = "set_program";
            arg = json!([p, lay]);
            res = call(&mut || vm.set_program(program(p), layout(lay)).map(|_| "ok".to_string()));
            if res == "ok" {
                loaded_px = p == "PX";
                cur = Some(p);
            }
        } else if choice < 37 {
            let mut v = *r.pick(&["acceptAll", "rejectAll", "custom"]);
            if v == "acceptAll" && loaded_px {
                v = "custom";
            }
            op = "set_verifier";
            arg = json!(v);
            let f: rbpf::Verifier = match v { "acceptAll" => accept_all, "rejectAll" => reject_all, _ => custom };
            res = call(&mut || vm.set_verifier(f).map(|_| "ok".to_string()));
            if res == "ok" {
                under_accept_all = v == "acceptAll";
            }
        } else if choice < 43 {
            op = "register_helper";
            arg = json!(1);
            res = call(&mut || vm.register_helper(1, exec::HELPERS[0]).map(|_| "ok".to_string()));
        } else if choice < 47 {
            op = "set_calc";
            arg = json!(64);
            res = call(&mut || vm.set_calc(calc64, Box::new(())).map(|_| "ok".to_string()));
        } else if choice < 57 {
            op = "jit_compile";
            arg = json!("none");
            res = call(&mut || vm.jit_compile().map(|_| "ok".to_string()));
        } else if choice < 65 {
            op = "cl_compile";
            arg = json!("none");
            res = call(&mut || vm.cranelift_compile().map(|_| "ok".to_string()));
        } else {
            let mut k = *r.pick(&["pa", "pb", "pc", "pe", "pa", "pe"]);
            let engine = if choice < 80 { "interp" } else if choice < 91 { "jit" } else { "cl" };
            if engine != "interp" && k == "pe" && cur == Some("P7") {
                k = "pc"; // compiled code has no run-time checks: the load would fault
            }
            op = match engine { "interp" => "exec", "jit" => "exec_jit", _ => "exec_cl" };
            arg = json!(k);
            let base = if k == "pb" { PB_BASE } else { PA_BASE };
            res = call(&mut || {
                let pkt: &mut [u8] = match k {
                    "pa" => pa.slice(),
                    "pb" => pb.slice(),
                    "pc" => &mut pa.slice()[..8],
                    _ => &mut [],
                };
                vm.exec(engine, pkt, mb.slice()).map(|v| if v == base { "pkt".to_string() } else { v.to_string() })
            });
        }
        events.push(json!({"e": "call", "op": op, "arg": arg, "res": res}));
    }
    json!({"events": events})
}
