//! C10: random histories of VM API calls on a real VM object, recorded for TraceApi.tla.

use crate::exec::{self, Vm};
use crate::util::*;
use serde_json::{json, Value};

fn ins(opc: u8, dst: u8, src: u8, off: i16, imm: i32) -> [u8; 8] {
    encode_slot(opc, dst, src, off, imm)
}
fn cat(v: &[[u8; 8]]) -> &'static [u8] {
    Box::leak(v.concat().into_boxed_slice())
}

/// One slice per program name for the whole process: a history that loads a program twice offers
/// the very same slice twice (what an application switching between a few programs does - and
/// what anything keyed on a program's address would need in order to show itself).
pub fn program(name: &str) -> &'static [u8] {
    static CACHE: std::sync::Mutex<Vec<(String, &'static [u8])>> = std::sync::Mutex::new(Vec::new());
    let mut c = CACHE.lock().unwrap();
    if let Some((_, p)) = c.iter().find(|(n, _)| n == name) {
        return p;
    }
    let p = program_bytes(name);
    c.push((name.to_string(), p));
    p
}

fn program_bytes(name: &str) -> &'static [u8] {
    match name {
        "P1" => cat(&[ins(0xb7, 0, 0, 0, 1), ins(0x95, 0, 0, 0, 0)]),
        "P2" => cat(&[ins(0xb7, 0, 0, 0, 2), ins(0x95, 0, 0, 0, 0)]),
        // dead atomic op with a non-zero immediate: refused by the default verifier, harmless
        "P3" => cat(&[ins(0x05, 0, 0, 1, 0), ins(0xc3, 10, 0, -8, 1), ins(0xb7, 0, 0, 0, 3), ins(0x95, 0, 0, 0, 0)]),
        "P4" => cat(&[ins(0xb7, 1, 0, 0, 5), ins(0xb7, 2, 0, 0, 0), ins(0xb7, 3, 0, 0, 0), ins(0xb7, 4, 0, 0, 0),
                      ins(0xb7, 5, 0, 0, 0), ins(0x85, 0, 0, 0, 1), ins(0x95, 0, 0, 0, 0)]),
        "P5" => cat(&[ins(0xbf, 1, 10, 0, 0), ins(0x85, 0, 1, 0, 1), ins(0x95, 0, 0, 0, 0),
                      ins(0xbf, 0, 1, 0, 0), ins(0x1f, 0, 10, 0, 0), ins(0x95, 0, 0, 0, 0)]),
        "P6" => cat(&[ins(0xb7, 2, 0, 0, 0), ins(0xbf, 1, 10, 0, 0), ins(0x85, 0, 1, 0, 1), ins(0x95, 0, 0, 0, 0),
                      ins(0xbf, 0, 1, 0, 0), ins(0x1f, 0, 10, 0, 0), ins(0x95, 0, 0, 0, 0)]),
        "P7" => cat(&[ins(0x30, 0, 0, 0, 0), ins(0x95, 0, 0, 0, 0)]),
        "P8" => cat(&[ins(0x79, 0, 1, 0x50, 0), ins(0x79, 2, 1, 0x40, 0), ins(0x1f, 0, 2, 0, 0), ins(0x95, 0, 0, 0, 0)]),
        "P9" => cat(&[ins(0x79, 0, 1, 0x40, 0), ins(0x95, 0, 0, 0, 0)]),
        "PX" => cat(&[[0xff; 8]]),
        // a local call far outside the program: refused by every verifier used here
        "PY" => cat(&[ins(0x85, 0, 1, 0, 1000), ins(0x95, 0, 0, 0, 0)]),
        _ => panic!("program {name}"),
    }
}

fn accept_all(_p: &[u8]) -> Result<(), std::io::Error> {
    Ok(())
}
fn reject_all(_p: &[u8]) -> Result<(), std::io::Error> {
    Err(std::io::Error::other("reject-all verifier"))
}
fn custom(p: &[u8]) -> Result<(), std::io::Error> {
    if !p.is_empty() && p[0] == 0xb7 { Ok(()) } else { Err(std::io::Error::other("custom verifier: first instruction must be mov64 imm")) }
}
// (both calculators look at the instruction they are asked about, as a real one would: they are
// only ever asked about function entries of a program the verifier has accepted)
fn calc64(p: &[u8], pc: usize, _d: &mut dyn std::any::Any) -> u16 {
    let _entry = &p[8 * pc..8 * pc + 8];
    64
}
/// looks at the program: 64 if it starts with mov64 r1, r10 (P5), else 32
fn calc_byprog(p: &[u8], pc: usize, _d: &mut dyn std::any::Any) -> u16 {
    let _entry = &p[8 * pc..8 * pc + 8];
    if p.first() == Some(&0xbf) { 64 } else { 32 }
}

fn layout(name: &str) -> (usize, usize) {
    match name {
        "A" => (0x40, 0x50),
        "C" => (0x48, 0x50),
        _ => panic!("layout {name}"),
    }
}

const PA_BASE: u64 = 0x0000_1000_0010_0000 - 16;
const PB_BASE: u64 = 0x0000_1000_0050_0000;
const MB_BASE: u64 = 0x0000_1000_0020_0000 - 32;

struct Bufs {
    pa: FixedBuf,
    pb: FixedBuf,
    mb: FixedBuf,
}

fn make_bufs() -> Bufs {
    Bufs {
        pa: FixedBuf::new(PA_BASE, &{ let mut v = vec![0x11u8; 16]; v[1] = 1; v }).unwrap(),
        pb: FixedBuf::new(PB_BASE, &{ let mut v = vec![0x22u8; 24]; v[1] = 2; v }).unwrap(),
        mb: FixedBuf::new(MB_BASE, &[0x33u8; 32]).unwrap(),
    }
}

/// Create the VM of a history; pushes the "new" event.  None: no VM object (refused or panicked).
fn make_vm(kind: &str, first: Option<&str>, events: &mut Vec<Value>) -> Option<Vm> {
    let made = std::panic::catch_unwind(|| Vm::new(kind, first.map(program), layout("A")));
    match made {
        Ok(Ok(vm)) => {
            events.push(json!({"e": "new", "arg": first.unwrap_or("none"), "res": "ok"}));
            Some(vm)
        }
        Ok(Err(_)) => {
            events.push(json!({"e": "new", "arg": first.unwrap_or("none"), "res": "err"}));
            None
        }
        Err(e) => {
            events.push(json!({"e": "new", "arg": first.unwrap_or("none"), "res": format!("panic:{}", panic_msg(e))}));
            None
        }
    }
}

/// Perform one API call on the real object; the result as the specification names it.
fn perform(vm: &mut Vm, b: &Bufs, op: &str, arg: &Value) -> String {
    let call = |f: &mut dyn FnMut() -> Result<String, String>| -> String {
        match std::panic::catch_unwind(std::panic::AssertUnwindSafe(|| f())) {
            Ok(Ok(s)) => s,
            Ok(Err(_)) => "err".to_string(),
            Err(e) => format!("panic:{}", panic_msg(e)),
        }
    };
    match op {
        "set_program" => {
            let (p, lay) = (arg[0].as_str().unwrap(), arg[1].as_str().unwrap());
            call(&mut || vm.set_program(program(p), layout(lay)).map(|_| "ok".to_string()))
        }
        "set_verifier" => {
            let f: rbpf::Verifier = match arg.as_str().unwrap() { "acceptAll" => accept_all, "rejectAll" => reject_all, _ => custom };
            call(&mut || vm.set_verifier(f).map(|_| "ok".to_string()))
        }
        // "a": the function of slot 0 (bound to id 1: returns 5 + 1 for P4), "b": slot 1 (bound to id 3: 5 + 3)
        "register_helper" => {
            let f = if arg == "b" { exec::HELPERS[1] } else { exec::HELPERS[0] };
            call(&mut || vm.register_helper(1, f).map(|_| "ok".to_string()))
        }
        "set_calc" => {
            let f: rbpf::StackUsageCalculator = if arg == "byprog" { calc_byprog } else { calc64 };
            call(&mut || vm.set_calc(f, Box::new(())).map(|_| "ok".to_string()))
        }
        "jit_compile" => call(&mut || vm.jit_compile().map(|_| "ok".to_string())),
        "cl_compile" => call(&mut || vm.cranelift_compile().map(|_| "ok".to_string())),
        "exec" | "exec_jit" | "exec_cl" => {
            let engine = match op { "exec" => "interp", "exec_jit" => "jit", _ => "cl" };
            let k = arg.as_str().unwrap();
            let base = if k == "pb" { PB_BASE } else { PA_BASE };
            call(&mut || {
                let pkt: &mut [u8] = match k {
                    "pa" => b.pa.slice(),
                    "pb" => b.pb.slice(),
                    "pc" => &mut b.pa.slice()[..8],
                    _ => &mut [],
                };
                vm.exec(engine, pkt, b.mb.slice()).map(|v| if v == base { "pkt".to_string() } else { v.to_string() })
            })
        }
        other => panic!("api op {other}"),
    }
}

/// A scripted history (a walk through VmApi's state graph planned by lib/tour.py).
pub fn run_script(job: &Value) -> Value {
    let kind = job["kind"].as_str().unwrap();
    exec::set_helper_id(0, 1);
    exec::set_helper_id(1, 3);
    let b = make_bufs();
    let mut events: Vec<Value> = Vec::new();
    let first = job["first"].as_str().filter(|s| *s != "none");
    let mut vm = match make_vm(kind, first, &mut events) {
        Some(vm) => vm,
        None => return json!({"events": events}),
    };
    for c in arr(&job["calls"]) {
        let (op, arg) = (c[0].as_str().unwrap(), &c[1]);
        let res = perform(&mut vm, &b, op, arg);
        events.push(json!({"e": "call", "op": op, "arg": arg, "res": res}));
    }
    json!({"events": events})
}

/// One random history on one VM kind; returns its events.  Runs in a child process.
pub fn run_history(job: &Value) -> Value {
    let kind = job["kind"].as_str().unwrap();
    let seed = job["seed"].as_u64().unwrap();
    let len = job["len"].as_u64().unwrap() as usize;
    let mut r = Rng::new(seed);
    exec::set_helper_id(0, 1);
    exec::set_helper_id(1, 3);
    let mut progs: Vec<&str> = vec!["P1", "P2", "P3", "P4", "P5", "P6", "PX", "PY"];
    if kind != "nodata" {
        progs.push("P7");
    }
    if kind == "fixed" {
        progs.push("P8");
        progs.push("P9");
    }
    let layouts: Vec<&str> = if kind == "fixed" { vec!["A", "C"] } else { vec!["A"] };
    let b = make_bufs();
    let mut events: Vec<Value> = Vec::new();

    // new(None) or new(Some(p))
    let first: Option<&str> = if r.chance(1, 2) { None } else { Some(*r.pick(&progs)) };
    let mut vm = match make_vm(kind, first, &mut events) {
        Some(vm) => vm,
        None => return json!({"events": events}),
    };
    let mut under_accept_all = false;
    let mut loaded_px = false;
    let mut cur: Option<&str> = first;
    for _ in 0..len {
        let choice = r.below(100);
        let (op, arg): (&str, Value);
        if choice < 25 {
            let mut p = *r.pick(&progs);
            if under_accept_all && (p == "PX" || p == "PY") {
                p = "P1"; // never load the unsafe program under accept-all
            }
            let lay = *r.pick(&layouts);
            op = "set_program";
            arg = json!([p, lay]);
        } else if choice < 37 {
            let mut v = *r.pick(&["acceptAll", "rejectAll", "custom"]);
            if v == "acceptAll" && loaded_px {
                v = "custom";
            }
            op = "set_verifier";
            arg = json!(v);
        } else if choice < 43 {
            op = "register_helper";
            arg = json!(*r.pick(&["a", "b"]));
        } else if choice < 47 {
            op = "set_calc";
            arg = json!(*r.pick(&["k64", "byprog"]));
        } else if choice < 57 {
            op = "jit_compile";
            arg = json!("none");
        } else if choice < 65 {
            op = "cl_compile";
            arg = json!("none");
        } else {
            let mut k = *r.pick(&["pa", "pb", "pc", "pe", "pa", "pe"]);
            let engine = if choice < 80 { "interp" } else if choice < 91 { "jit" } else { "cl" };
            if engine != "interp" && k == "pe" && cur == Some("P7") {
                k = "pc"; // compiled code has no run-time checks: the load would fault
            }
            op = match engine { "interp" => "exec", "jit" => "exec_jit", _ => "exec_cl" };
            arg = json!(k);
        }
        let res = perform(&mut vm, &b, op, &arg);
        if res == "ok" {
            match op {
                "set_program" => {
                    let p = arg[0].as_str().unwrap();
                    loaded_px = p == "PX" || p == "PY";
                    cur = progs.iter().copied().find(|x| *x == p);
                }
                "set_verifier" => under_accept_all = arg == "acceptAll",
                _ => {}
            }
        }
        events.push(json!({"e": "call", "op": op, "arg": arg, "res": res}));
    }
    json!({"events": events})
}
