//! Run one case (a VM kind, a program, buffers, helpers, ...) on one engine of the real rbpf and
//! report what was observed; compare observations with the outcomes the specification allows.

use crate::util::*;
use serde_json::{json, Value};
use std::any::Any;
use std::cell::RefCell;

// ---------------------------------------------------------------------------------------------
// Instrumented helpers.  Slot k is bound to id IDS[k]; every slot is a distinct function.
// h(a1..a5) = a1 + 2 a2 + 3 a3 + 5 a4 + 7 a5 + id   (the specification's ModelHelperRet)
// ---------------------------------------------------------------------------------------------

pub const NSLOTS: usize = 8;

/// (id, arguments, returned value, bytes written: (address, bytes))
pub type HelperObserver = Box<dyn FnMut(u32, [u64; 5], u64, &[(u64, Vec<u8>)])>;
pub const POKE_MAGIC: u64 = 0x706f_6b65;
thread_local! {
    /// the buffers of the running case a "poke" may write into: (base, length)
    static POKE_OK: RefCell<Vec<(u64, usize)>> = const { RefCell::new(Vec::new()) };
}
pub fn set_poke_ranges(v: Vec<(u64, usize)>) {
    POKE_OK.with(|c| *c.borrow_mut() = v);
}
thread_local! {
    static OBSERVER: RefCell<Option<HelperObserver>> = const { RefCell::new(None) };
}
/// Install a callback invoked at every helper call (id, arguments, returned value).
pub fn set_helper_observer(o: Option<HelperObserver>) {
    OBSERVER.with(|c| *c.borrow_mut() = o);
}

thread_local! {
    static IDS: RefCell<[u32; NSLOTS]> = const { RefCell::new([0; NSLOTS]) };
    static HLOG: RefCell<Vec<(u32, [u64; 5], u64)>> = const { RefCell::new(Vec::new()) };
    static RSP_BASE: RefCell<[u64; NSLOTS]> = const { RefCell::new([0; NSLOTS]) };
}

#[inline(never)]
fn read_rsp() -> u64 {
    let x: u64;
    unsafe { core::arch::asm!("mov {}, rsp", out(reg) x, options(nomem, nostack, preserves_flags)) };
    x
}

/// Overwrites every register the System V ABI lets a callee change (rcx, rdx, rsi, rdi, r8-r11).
/// A helper may do this; compiled code that keeps a value in one of them across a helper call
/// (the x86-64 JIT keeps the packet pointer of ldabs/ldind in x86 r10) then shows it.
#[inline(always)]
pub fn scrub_caller_saved() {
    unsafe {
        core::arch::asm!(
            "mov rcx, 0x5a5a5a5a5a5a5a5a", "mov rdx, rcx", "mov rsi, rcx", "mov rdi, rcx",
            "mov r8, rcx", "mov r9, rcx", "mov r10, rcx", "mov r11, rcx",
            out("rcx") _, out("rdx") _, out("rsi") _, out("rdi") _,
            out("r8") _, out("r9") _, out("r10") _, out("r11") _,
            options(nomem, nostack, preserves_flags)
        )
    };
}

#[inline(always)]
fn helper_body(slot: usize, a: [u64; 5]) -> u64 {
    let rsp = read_rsp();
    let id = IDS.with(|i| i.borrow()[slot]);
    HLOG.with(|l| l.borrow_mut().push((id, a, rsp % 16)));
    let ret = a[0].wrapping_add(a[1].wrapping_mul(2))
        .wrapping_add(a[2].wrapping_mul(3))
        .wrapping_add(a[3].wrapping_mul(5))
        .wrapping_add(a[4].wrapping_mul(7))
        .wrapping_add(id as u64);
    // the specification's ModelHelperWrites: a3 = "poke", a4 = n in 1..8: store the low n bytes of
    // a2 at a1 (only inside a buffer of the running case: the harness never writes anywhere else)
    let mut wr: Vec<(u64, Vec<u8>)> = Vec::new();
    if a[2] == POKE_MAGIC && (1..=8).contains(&a[3]) {
        let n = a[3] as usize;
        let inside = POKE_OK.with(|c| {
            c.borrow().iter().any(|(b, l)| a[0] >= *b && a[0].wrapping_sub(*b) as usize + n <= *l && a[0].checked_add(n as u64).is_some())
        });
        if inside {
            let bytes = a[1].to_le_bytes()[..n].to_vec();
            unsafe { std::ptr::copy_nonoverlapping(bytes.as_ptr(), a[0] as *mut u8, n) };
            wr.push((a[0], bytes));
        }
    }
    OBSERVER.with(|o| {
        if let Some(f) = o.borrow_mut().as_mut() {
            f(id, a, ret, &wr);
        }
    });
    scrub_caller_saved();
    ret
}

macro_rules! mk_helper {
    ($name:ident, $slot:expr) => {
        #[inline(never)]
        fn $name(a1: u64, a2: u64, a3: u64, a4: u64, a5: u64) -> u64 {
            helper_body($slot, [a1, a2, a3, a4, a5])
        }
    };
}
mk_helper!(h0, 0);
mk_helper!(h1, 1);
mk_helper!(h2, 2);
mk_helper!(h3, 3);
mk_helper!(h4, 4);
mk_helper!(h5, 5);
mk_helper!(h6, 6);
mk_helper!(h7, 7);
pub const HELPERS: [fn(u64, u64, u64, u64, u64) -> u64; NSLOTS] = [h0, h1, h2, h3, h4, h5, h6, h7];

/// Never the function that should run (see run_case_inner).
fn decoy_helper(_a: u64, _b: u64, _c: u64, _d: u64, _e: u64) -> u64 {
    0xdec0_dec0_dec0_dec0
}

pub fn set_helper_id(slot: usize, id: u32) {
    IDS.with(|t| t.borrow_mut()[slot] = id);
}

/// rsp mod 16 inside each helper when it is called from ordinary Rust code (ABI-conforming).
pub fn calibrate_helpers() {
    for (k, h) in HELPERS.iter().enumerate() {
        let f = std::hint::black_box(*h);
        HLOG.with(|l| l.borrow_mut().clear());
        f(1, 2, 3, 4, 5);
        let m = HLOG.with(|l| l.borrow()[0].2);
        RSP_BASE.with(|b| b.borrow_mut()[k] = m);
    }
    HLOG.with(|l| l.borrow_mut().clear());
}

// ---------------------------------------------------------------------------------------------
// Stack-usage calculator driven by the case's table.
// ---------------------------------------------------------------------------------------------

struct Fsz {
    dflt: u16,
    tab: Vec<(usize, u16)>,
}

fn calculator(_prog: &[u8], pc: usize, data: &mut dyn Any) -> u16 {
    // rbpf hands the calculator its `Box<dyn Any>` (as `&mut dyn Any`), not the boxed value
    let f = match data.downcast_ref::<Fsz>() {
        Some(f) => f,
        None => data
            .downcast_ref::<Box<dyn Any>>()
            .and_then(|b| b.downcast_ref::<Fsz>())
            .expect("calculator data"),
    };
    for (p, s) in &f.tab {
        if *p == pc {
            return *s;
        }
    }
    f.dflt
}

// ---------------------------------------------------------------------------------------------
// A uniform face over the four VM kinds.
// ---------------------------------------------------------------------------------------------

pub enum Vm {
    Raw(rbpf::EbpfVmRaw<'static>),
    NoData(rbpf::EbpfVmNoData<'static>),
    Mbuff(rbpf::EbpfVmMbuff<'static>),
    Fixed(rbpf::EbpfVmFixedMbuff<'static>),
}

type R<T> = Result<T, String>;
fn es<T>(r: Result<T, std::io::Error>) -> R<T> {
    r.map_err(|e| e.to_string())
}

impl Vm {
    pub fn new(kind: &str, prog: Option<&'static [u8]>, fixed: (usize, usize)) -> R<Vm> {
        Ok(match kind {
            "raw" => Vm::Raw(es(rbpf::EbpfVmRaw::new(prog))?),
            "nodata" => Vm::NoData(es(rbpf::EbpfVmNoData::new(prog))?),
            "mbuff" => Vm::Mbuff(es(rbpf::EbpfVmMbuff::new(prog))?),
            "fixed" => Vm::Fixed(es(rbpf::EbpfVmFixedMbuff::new(prog, fixed.0, fixed.1))?),
            _ => panic!("vm kind {kind}"),
        })
    }
    pub fn set_program(&mut self, prog: &'static [u8], fixed: (usize, usize)) -> R<()> {
        match self {
            Vm::Raw(v) => es(v.set_program(prog)),
            Vm::NoData(v) => es(v.set_program(prog)),
            Vm::Mbuff(v) => es(v.set_program(prog)),
            Vm::Fixed(v) => es(v.set_program(prog, fixed.0, fixed.1)),
        }
    }
    pub fn set_verifier(&mut self, f: rbpf::Verifier) -> R<()> {
        match self {
            Vm::Raw(v) => es(v.set_verifier(f)),
            Vm::NoData(v) => es(v.set_verifier(f)),
            Vm::Mbuff(v) => es(v.set_verifier(f)),
            Vm::Fixed(v) => es(v.set_verifier(f)),
        }
    }
    pub fn register_helper(&mut self, id: u32, f: rbpf::Helper) -> R<()> {
        match self {
            Vm::Raw(v) => es(v.register_helper(id, f)),
            Vm::NoData(v) => es(v.register_helper(id, f)),
            Vm::Mbuff(v) => es(v.register_helper(id, f)),
            Vm::Fixed(v) => es(v.register_helper(id, f)),
        }
    }
    pub fn register_allowed_memory(&mut self, r: std::ops::Range<u64>) {
        match self {
            Vm::Raw(v) => v.register_allowed_memory(r),
            Vm::NoData(v) => v.register_allowed_memory(r),
            Vm::Mbuff(v) => v.register_allowed_memory(r),
            Vm::Fixed(v) => v.register_allowed_memory(r),
        }
    }
    pub fn set_calc(&mut self, c: rbpf::StackUsageCalculator, d: Box<dyn Any>) -> R<()> {
        match self {
            Vm::Raw(v) => es(v.set_stack_usage_calculator(c, d)),
            Vm::NoData(v) => es(v.set_stack_usage_calculator(c, d)),
            Vm::Mbuff(v) => es(v.set_stack_usage_calculator(c, d)),
            Vm::Fixed(v) => es(v.set_stack_usage_calculator(c, d)),
        }
    }
    pub fn jit_compile(&mut self) -> R<()> {
        match self {
            Vm::Raw(v) => es(v.jit_compile()),
            Vm::NoData(v) => es(v.jit_compile()),
            Vm::Mbuff(v) => es(v.jit_compile()),
            Vm::Fixed(v) => es(v.jit_compile()),
        }
    }
    pub fn cranelift_compile(&mut self) -> R<()> {
        match self {
            Vm::Raw(v) => es(v.cranelift_compile()),
            Vm::NoData(v) => es(v.cranelift_compile()),
            Vm::Mbuff(v) => es(v.cranelift_compile()),
            Vm::Fixed(v) => es(v.cranelift_compile()),
        }
    }
    pub fn exec(&mut self, engine: &str, mem: &'static mut [u8], mbuff: &'static mut [u8]) -> R<u64> {
        match (self, engine) {
            (Vm::Raw(v), "interp") => es(v.execute_program(mem)),
            (Vm::Raw(v), "jit") => es(unsafe { v.execute_program_jit(mem) }),
            (Vm::Raw(v), "cl") => es(v.execute_program_cranelift(mem)),
            (Vm::NoData(v), "interp") => es(v.execute_program()),
            (Vm::NoData(v), "jit") => es(unsafe { v.execute_program_jit() }),
            (Vm::NoData(v), "cl") => es(v.execute_program_cranelift()),
            (Vm::Mbuff(v), "interp") => es(v.execute_program(mem, mbuff)),
            (Vm::Mbuff(v), "jit") => es(unsafe { v.execute_program_jit(mem, mbuff) }),
            (Vm::Mbuff(v), "cl") => es(v.execute_program_cranelift(mem, mbuff)),
            (Vm::Fixed(v), "interp") => es(v.execute_program(mem)),
            (Vm::Fixed(v), "jit") => es(unsafe { v.execute_program_jit(mem) }),
            (Vm::Fixed(v), "cl") => es(v.execute_program_cranelift(mem)),
            (_, e) => panic!("engine {e}"),
        }
    }
}

// ---------------------------------------------------------------------------------------------
// Running a case.
// ---------------------------------------------------------------------------------------------

pub const DEFAULT_BUDGET: u64 = 3_000_000;

/// Everything observable about running `case` on `engine`.  Called inside a child process.
pub fn run_case(case: &Value, engine: &str) -> Value {
    run_case_with_hook(case, engine, true)
}

/// `own_hook = false`: the caller has installed its own interpreter step hook (trace recording).
pub fn run_case_with_hook(case: &Value, engine: &str, own_hook: bool) -> Value {
    let r = std::panic::catch_unwind(|| run_case_inner(case, engine, own_hook));
    match r {
        Ok(v) => v,
        Err(e) => json!({"engine": engine, "k": "panic", "stage": "harness-or-load", "msg": panic_msg(e)}),
    }
}

fn run_case_inner(case: &Value, engine: &str, own_hook: bool) -> Value {
    let kind = case["vm"].as_str().unwrap();
    let prog: &'static [u8] = Box::leak(prog_bytes(&case["prog"]).into_boxed_slice());
    let fixed_v = arr(&case["fixed"]);
    let fixed = (fixed_v[0].as_u64().unwrap() as usize, fixed_v[1].as_u64().unwrap() as usize);

    // buffers at the addresses the case states
    let pkt = FixedBuf::new(word(&case["pkt"]["base"]), &bytes(&case["pkt"]["bytes"])).unwrap();
    let mbuf = FixedBuf::new(word(&case["mbuf"]["base"]), &bytes(&case["mbuf"]["bytes"])).unwrap();
    let allow: Vec<FixedBuf> = arr(&case["allow"])
        .iter()
        .map(|a| FixedBuf::new(word(&a["base"]), &bytes(&a["bytes"])).unwrap())
        .collect();

    // load (the default verifier runs here).  Cases with a stack-usage calculator alternate between
    // the two orders the API allows: new(Some(prog)) then set_stack_usage_calculator, and
    // new(None), set_stack_usage_calculator, then set_program(prog) - the result must be the same.
    let late_load = case["calc"].as_bool().unwrap_or(false)
        && arr(&case["id"]).iter().filter_map(|v| v.as_i64()).sum::<i64>() % 2 == 1;
    let load = std::panic::catch_unwind(|| Vm::new(kind, if late_load { None } else { Some(prog) }, fixed));
    let mut vm = match load {
        Err(e) => return json!({"engine": engine, "k": "panic", "stage": "load", "msg": panic_msg(e)}),
        Ok(Err(msg)) => return json!({"engine": engine, "k": "reject", "msg": msg}),
        Ok(Ok(vm)) => vm,
    };

    // helpers
    let ids: Vec<i64> = arr(&case["helpers"]).iter().map(|v| v.as_i64().unwrap()).collect();
    assert!(ids.len() <= NSLOTS, "too many helpers in case");
    IDS.with(|t| {
        let mut t = t.borrow_mut();
        for (k, id) in ids.iter().enumerate() {
            t[k] = *id as i32 as u32;
        }
    });
    // (registering a function under an id that is already taken replaces the earlier function:
    // a decoy goes in first under every id)
    for id in ids.iter() {
        vm.register_helper(*id as i32 as u32, decoy_helper).unwrap();
    }
    // compiled code binds helper addresses when it is built: compile once with the decoys, the
    // compilation that follows the real registrations must replace that code
    if engine != "interp" && !ids.is_empty() {
        let _ = std::panic::catch_unwind(std::panic::AssertUnwindSafe(|| {
            if engine == "jit" { vm.jit_compile() } else { vm.cranelift_compile() }
        }));
    }
    for (k, id) in ids.iter().enumerate() {
        vm.register_helper(*id as i32 as u32, HELPERS[k]).unwrap();
    }
    for a in &allow {
        vm.register_allowed_memory(a.base..a.base + a.len as u64);
    }
    set_poke_ranges(
        [&pkt, &mbuf].into_iter().chain(allow.iter()).filter(|b| b.len > 0).map(|b| (b.base, b.len)).collect(),
    );
    if case["calc"].as_bool().unwrap_or(false) {
        let f = Fsz {
            dflt: case["fsz"]["dflt"].as_u64().unwrap() as u16,
            tab: arr(&case["fsz"]["tab"])
                .iter()
                .map(|e| (e[0].as_u64().unwrap() as usize, e[1].as_u64().unwrap() as u16))
                .collect(),
        };
        if let Err(msg) = vm.set_calc(calculator, Box::new(f)) {
            return json!({"engine": engine, "k": "err", "stage": "set_calc", "msg": msg});
        }
    }
    if late_load {
        match std::panic::catch_unwind(std::panic::AssertUnwindSafe(|| vm.set_program(prog, fixed))) {
            Err(e) => return json!({"engine": engine, "k": "panic", "stage": "load", "msg": panic_msg(e)}),
            Ok(Err(msg)) => return json!({"engine": engine, "k": "reject", "msg": msg}),
            Ok(Ok(())) => {}
        }
    }

    // compile
    if engine != "interp" {
        let c = std::panic::catch_unwind(std::panic::AssertUnwindSafe(|| {
            if engine == "jit" { vm.jit_compile() } else { vm.cranelift_compile() }
        }));
        match c {
            Err(e) => return json!({"engine": engine, "k": "panic", "stage": "compile", "msg": panic_msg(e)}),
            Ok(Err(msg)) => return json!({"engine": engine, "k": "cerr", "msg": msg, "class": err_class(&msg)}),
            Ok(Ok(())) => {}
        }
    }

    // budget through the interpreter's step hook
    let budget = match case["budget"].as_u64() {
        Some(b) if b > 0 => b,
        _ => DEFAULT_BUDGET,
    };
    if own_hook {
        let mut steps = 0u64;
        rbpf::verif::set_step_hook(Some(Box::new(move |_pc, _reg, _depth, _stack| {
            steps += 1;
            steps <= budget
        })));
    }
    // "warm" cases: an earlier execution with a different packet must not influence this one (C09, C10)
    let warm = case["warm"].as_u64().unwrap_or(0);
    if warm == 2 && kind != "nodata" && pkt.len >= 2 {
        // the same start address with another length (a reused receive buffer)
        // (one byte shorter; one byte longer for Cranelift code, where an access refused in the
        // warm-up run would trap and end the process - the extra byte is never touched)
        let short: *mut [u8] = if engine == "cl" {
            std::ptr::slice_from_raw_parts_mut(pkt.base as *mut u8, pkt.len + 1)
        } else {
            &mut pkt.slice()[..pkt.len - 1]
        };
        let other_mb: *mut [u8] = Box::leak(vec![0u8; mbuf.len].into_boxed_slice());
        let _ = std::panic::catch_unwind(std::panic::AssertUnwindSafe(|| unsafe { vm.exec(engine, &mut *short, &mut *other_mb) }));
        // (the warm-up run may have stored into the packet: put the case's bytes back)
        pkt.slice().copy_from_slice(&bytes(&case["pkt"]["bytes"]));
    } else if warm >= 1 && kind != "nodata" {
        // (a larger packet, so that whatever is in bounds for the real one is in bounds here)
        let other: *mut [u8] = Box::leak(vec![0x5au8; pkt.len + 13].into_boxed_slice());
        let other_mb: *mut [u8] = Box::leak(vec![0u8; mbuf.len].into_boxed_slice());
        let _ = std::panic::catch_unwind(std::panic::AssertUnwindSafe(|| unsafe {
            vm.exec(engine, &mut *other, &mut *other_mb)
        }));
    }
    HLOG.with(|l| l.borrow_mut().clear());

    let res = std::panic::catch_unwind(std::panic::AssertUnwindSafe(|| {
        vm.exec(engine, pkt.slice(), mbuf.slice())
    }));
    if own_hook {
        rbpf::verif::set_step_hook(None);
    }

    let hlog: Vec<Value> = HLOG.with(|l| {
        l.borrow()
            .iter()
            .map(|(id, a, _)| json!([*id as i32, a.iter().map(|x| word_json(*x)).collect::<Vec<_>>()]))
            .collect()
    });
    let aligned = HLOG.with(|l| {
        let ids_now = IDS.with(|t| *t.borrow());
        l.borrow().iter().all(|(id, _, m)| {
            let slot = ids_now.iter().position(|x| x == id).unwrap_or(0);
            RSP_BASE.with(|b| b.borrow()[slot] == *m)
        })
    });
    let mut o = json!({
        "engine": engine,
        "pkt": bytes_json(&pkt.read()),
        "mbuf": bytes_json(&mbuf.read()),
        "allow": allow.iter().map(|a| bytes_json(&a.read())).collect::<Vec<_>>(),
        "hlog": hlog,
        "aligned": aligned,
        "slack": allow.iter().any(|a| a.is_overlay())
            || (pkt.slack_intact() && mbuf.slack_intact() && allow.iter().all(|a| a.slack_intact())),
    });
    match res {
        Err(e) => {
            o["k"] = json!("panic");
            o["stage"] = json!("exec");
            o["msg"] = json!(panic_msg(e));
        }
        Ok(Err(msg)) => {
            o["k"] = json!("err");
            o["class"] = json!(err_class(&msg));
            o["msg"] = json!(msg);
        }
        Ok(Ok(v)) => {
            o["k"] = json!("ok");
            o["val"] = word_json(v);
        }
    }
    o
}

// ---------------------------------------------------------------------------------------------
// Judging an observation against the outcomes the specification allows for the case.
// ---------------------------------------------------------------------------------------------

pub enum Judgement {
    Pass,
    Skip(&'static str),
    Fail(String),
    /// disagrees with the specification exactly as the recorded known finding `key` predicts
    Known(String, String),
}

fn same_bytes(a: &Value, b: &Value) -> bool {
    bytes(a) == bytes(b)
}
fn same_allow(a: &Value, b: &Value) -> bool {
    let x = arr(a);
    let y = arr(b);
    x.len() == y.len() && x.iter().zip(y.iter()).all(|(p, q)| same_bytes(p, q))
}
fn same_hlog(exp: &Value, obs: &Value) -> bool {
    let x = arr(exp);
    let y = arr(obs);
    x.len() == y.len()
        && x.iter().zip(y.iter()).all(|(e, o)| {
            e[0].as_i64() == o[0].as_i64()
                && arr(&e[1]).iter().zip(arr(&o[1]).iter()).all(|(p, q)| word(p) == word(q))
        })
}

/// Memory effects and helper calls match an allowed outcome.
fn effects_match(case: &Value, exp: &Value, obs: &Value) -> Result<(), String> {
    if !same_bytes(&exp["pkt"], &obs["pkt"]) {
        return Err(format!("packet bytes differ: expected {} observed {}", exp["pkt"], obs["pkt"]));
    }
    if case["vm"] == "mbuff" && !same_bytes(&exp["mbuf"], &obs["mbuf"]) {
        return Err(format!("metadata bytes differ: expected {} observed {}", exp["mbuf"], obs["mbuf"]));
    }
    if !same_allow(&exp["allow"], &obs["allow"]) {
        return Err(format!("allowed-memory bytes differ: expected {} observed {}", exp["allow"], obs["allow"]));
    }
    if !same_hlog(&exp["hlog"], &obs["hlog"]) {
        return Err(format!("helper calls differ: expected {} observed {}", exp["hlog"], obs["hlog"]));
    }
    if obs["slack"] == json!(false) {
        return Err("bytes outside the buffers were modified".to_string());
    }
    if obs["aligned"] == json!(false) {
        return Err("helper entered with a misaligned native stack".to_string());
    }
    Ok(())
}

/// Is running `case` on `engine` inside the claims?  The x86-64 JIT performs no run-time checks
/// (documented): a run the specification ends with a run-time error, or whose outcome depends
/// on undefined state, is not executed at all on it.  Cranelift knows nothing about registered
/// allowed ranges.  Returns the reason for skipping.
pub fn outside_claim(case: &Value, exps: &[&Value], engine: &str) -> Option<&'static str> {
    if engine == "interp" || !case["wf"].as_bool().unwrap_or(true) {
        return None;
    }
    for e in exps {
        let k = e["k"].as_str().unwrap_or("");
        let class = e["class"].as_str().unwrap_or("");
        if !e["defd"].as_bool().unwrap_or(true) {
            return Some("undefined");
        }
        if k == "err" && class != "nohelper" && !(engine == "cl" && class == "oob") {
            return Some("runtime-error-on-compiled-engine");
        }
    }
    if engine == "cl" && !arr(&case["allow"]).is_empty() {
        return Some("allowed-ranges-are-interpreter-only");
    }
    None
}

pub const SIGILL: i64 = 4;

pub fn has_local_call(case: &Value) -> bool {
    arr(&case["prog"]).iter().any(|sg| sg[1][0].as_u64() == Some(0x85) && sg[1][2].as_u64() == Some(1))
}

fn dev_of(e: &Value) -> Vec<String> {
    arr(&e["dev"]).iter().map(|d| d.as_str().unwrap_or("").to_string()).collect()
}

/// `exps`: all outcomes the specification allows for this case (usually one), possibly followed
/// by outcomes of variants that reproduce a recorded known finding (non-empty "dev").  The
/// regular outcomes decide; only when they reject the observation are the deviation variants
/// consulted, and an exact match with one of them is reported as that known finding.
pub fn judge(case: &Value, exps: &[&Value], obs: &Value, engine: &str) -> Judgement {
    let regular: Vec<&Value> = exps.iter().copied().filter(|e| dev_of(e).is_empty()).collect();
    let j = judge_regular(case, &regular, obs, engine);
    if let Judgement::Fail(reason) = &j {
        for e in exps.iter().copied().filter(|e| !dev_of(e).is_empty()) {
            if let Judgement::Pass = judge_regular(case, &[e], obs, engine) {
                return Judgement::Known(dev_of(e).join("+"), reason.clone());
            }
        }
    }
    j
}

/// Do two observations of the same case agree in everything C03/C04 compare?
pub fn same_outcome(case: &Value, a: &Value, b: &Value) -> Result<(), String> {
    if a["k"] != b["k"] {
        return Err(format!("outcome kinds differ: {} vs {}", a["k"], b["k"]));
    }
    if a["k"] == "ok" && word(&a["val"]) != word(&b["val"]) {
        return Err(format!("returned values differ: {:#x} vs {:#x}", word(&a["val"]), word(&b["val"])));
    }
    if !same_bytes(&a["pkt"], &b["pkt"]) {
        return Err(format!("packet bytes differ: {} vs {}", a["pkt"], b["pkt"]));
    }
    if case["vm"] == "mbuff" && !same_bytes(&a["mbuf"], &b["mbuf"]) {
        return Err(format!("metadata bytes differ: {} vs {}", a["mbuf"], b["mbuf"]));
    }
    if !same_hlog(&a["hlog"], &b["hlog"]) {
        return Err(format!("helper calls differ: {} vs {}", a["hlog"], b["hlog"]));
    }
    Ok(())
}

fn judge_regular(case: &Value, exps: &[&Value], obs: &Value, engine: &str) -> Judgement {
    let k = obs["k"].as_str().unwrap_or("?");
    let wf = case["wf"].as_bool().unwrap_or(true);
    // crashes are never allowed, whatever the specification says about the value
    if k == "panic" {
        return Judgement::Fail(format!("panic at {}: {}", obs["stage"], obs["msg"]));
    }
    if k == "signal" && engine == "cl" && obs["sig"].as_i64() == Some(SIGILL) {
        // the Cranelift trap: the specified outcome of an out-of-bounds access (C11)
        return if exps.iter().any(|e| e["k"] == "err" && e["class"] == "oob") {
            Judgement::Pass
        } else {
            Judgement::Fail("trapped (SIGILL) although the specification performs every access".to_string())
        };
    }
    if k == "signal" || k == "timeout" || k == "exit" {
        return Judgement::Fail(format!("child {k} {}", obs["sig"]));
    }
    if !wf {
        return if k == "reject" {
            Judgement::Pass
        } else {
            Judgement::Fail(format!("program is not well-formed but was loaded (outcome {k})"))
        };
    }
    if k == "reject" {
        return Judgement::Fail(format!("well-formed program rejected: {}", obs["msg"]));
    }
    if engine == "cl" && has_local_call(case) {
        // C04: a program with an eBPF-to-eBPF call is refused by Cranelift compilation
        return if k == "cerr" {
            Judgement::Pass
        } else {
            Judgement::Fail(format!("program with a local call was not refused by cranelift_compile (outcome {k})"))
        };
    }
    if engine != "interp" {
        // helper addresses are bound at compile time: a program that names an unregistered helper
        // anywhere - reached or not - must be refused by the compilers (Verifier!CompileOk), and
        // that is all that is claimed about it
        let registered: Vec<i64> = arr(&case["helpers"]).iter().map(|v| v.as_i64().unwrap()).collect();
        let names_unregistered = arr(&case["prog"]).iter().any(|sg| {
            sg[1][0].as_u64() == Some(0x85) && sg[1][2].as_u64() == Some(0) && !registered.contains(&sg[1][4].as_i64().unwrap())
        });
        if names_unregistered {
            return if k == "cerr" {
                Judgement::Pass
            } else {
                Judgement::Fail(format!("a program naming an unregistered helper must fail compilation, outcome is {k}"))
            };
        }
    }
    let mut reasons = Vec::new();
    for exp in exps {
        let ek = exp["k"].as_str().unwrap();
        let defd = exp["defd"].as_bool().unwrap_or(true);
        match ek {
            "ok" => {
                if !defd {
                    // result depends on undefined state: only crash-freedom was required
                    return if engine == "interp" { Judgement::Pass } else { Judgement::Skip("undefined") };
                }
                if k != "ok" {
                    reasons.push(format!("expected value {} but outcome is {k} ({})", exp["val"], obs["msg"]));
                    continue;
                }
                if word(&exp["val"]) != word(&obs["val"]) {
                    reasons.push(format!("returned {:#x}, specification says {:#x}", word(&obs["val"]), word(&exp["val"])));
                    continue;
                }
                match effects_match(case, exp, obs) {
                    Ok(()) => return Judgement::Pass,
                    Err(e) => reasons.push(e),
                }
            }
            "err" => {
                let class = exp["class"].as_str().unwrap_or("");
                if engine == "interp" {
                    if !defd {
                        // the run depends on undefined state or raw addresses (e.g. an address beyond
                        // the VM's own buffer that may fall into its stack): only crash-freedom is claimed
                        return Judgement::Pass;
                    }
                    if k != "err" {
                        reasons.push(format!("expected an error ({class}) but outcome is {k} {}", obs["val"]));
                        continue;
                    }
                    match effects_match(case, exp, obs) {
                        Ok(()) => return Judgement::Pass,
                        Err(e) => reasons.push(e),
                    }
                } else {
                    // compiled engines: only the statically decidable error is specified here
                    if class == "nohelper" {
                        if k == "cerr" {
                            return Judgement::Pass;
                        }
                        reasons.push(format!("unregistered helper must fail compilation, outcome is {k}"));
                    } else if class == "oob" && engine == "cl" {
                        reasons.push(format!("out-of-bounds access must trap, outcome is {k} {}", obs["val"]));
                    } else {
                        return Judgement::Skip("runtime-error-on-compiled-engine");
                    }
                }
            }
            "stuck" => {
                reasons.push("specification gets stuck on a well-formed program".to_string());
            }
            _ => reasons.push(format!("unknown expected kind {ek}")),
        }
    }
    Judgement::Fail(reasons.join(" | "))
}
