//! Word.tla at 64 bits against the host's native arithmetic (MC_Word64 records).

use crate::util::*;
use serde_json::Value;

pub fn judge(rec: &Value) -> Vec<String> {
    let a = word(&rec["a"]);
    let b = word(&rec["b"]);
    let mut bad = Vec::new();
    let mut chk = |name: &str, want: u64| {
        let got = word(&rec[name]);
        if got != want {
            bad.push(format!("{name}({a:#x}, {b:#x}) = {got:#x} in Word.tla, natively {want:#x}"));
        }
    };
    let s = (b & 63) as u32;
    chk("add", a.wrapping_add(b));
    chk("sub", a.wrapping_sub(b));
    chk("neg", a.wrapping_neg());
    chk("mul", a.wrapping_mul(b));
    chk("div", if b == 0 { 0 } else { a / b });
    chk("mod", if b == 0 { 0 } else { a % b });
    chk("band", a & b);
    chk("bor", a | b);
    chk("bxor", a ^ b);
    chk("bnot", !a);
    chk("shl", a << s);
    chk("shr", a >> s);
    chk("sar", ((a as i64) >> s) as u64);
    chk("low", a & 0xffff_ffff);
    chk("sext", a as u32 as i32 as i64 as u64);
    chk("sext16", a as u16 as i16 as i64 as u64);
    chk("swap2", (a as u16).swap_bytes() as u64);
    chk("swap4", (a as u32).swap_bytes() as u64);
    chk("swap8", a.swap_bytes());
    let mut chki = |name: &str, want: i64| {
        let got = rec[name].as_i64();
        if got != Some(want) {
            bad.push(format!("{name}({a:#x}, {b:#x}) = {:?} in Word.tla, natively {want}", got));
        }
    };
    chki("sh", s as i64);
    chki("sh32", (b & 31) as i64);
    chki("cmp", if a < b { -1 } else if a > b { 1 } else { 0 });
    chki("scmp", if (a as i64) < (b as i64) { -1 } else if (a as i64) > (b as i64) { 1 } else { 0 });
    chki("carry", if a.checked_add(b).is_none() { 1 } else { 0 });
    chki("top", (a >> 63) as i64);
    if rec["zero"].as_bool() != Some(a == 0) {
        bad.push(format!("IsZero({a:#x}) wrong"));
    }
    bad
}
