//! C17: slot encoding / decoding through every public encoder and decoder, and the instruction
//! builder against the encoder and the assembler.

use crate::text;
use crate::util::*;
use rbpf::ebpf::{self, Insn};
use rbpf::insn_builder::{Arch, BpfCode, Cond, Endian, Instruction, IntoBytes, MemSize, Source};
use serde_json::{json, Value};

fn insn_of(v: &Value) -> Insn {
    Insn { opc: v[0].as_u64().unwrap() as u8, dst: v[1].as_u64().unwrap() as u8, src: v[2].as_u64().unwrap() as u8,
           off: v[3].as_i64().unwrap() as i16, imm: v[4].as_i64().unwrap() as i32 }
}

fn msize(bits: u64) -> MemSize {
    match bits { 0 => MemSize::Word, 8 => MemSize::HalfWord, 16 => MemSize::Byte, _ => MemSize::DoubleWord }
}
fn source(b: u64) -> Source {
    if b == 1 { Source::Reg } else { Source::Imm }
}
fn cond(op: u64) -> Cond {
    match op {
        1 => Cond::Equals, 2 => Cond::Greater, 3 => Cond::GreaterEquals, 4 => Cond::BitAnd, 5 => Cond::NotEquals,
        6 => Cond::GreaterSigned, 7 => Cond::GreaterEqualsSigned, 10 => Cond::Lower, 11 => Cond::LowerEquals,
        12 => Cond::LowerSigned, 13 => Cond::LowerEqualsSigned, _ => Cond::Abs,
    }
}

macro_rules! finish {
    ($b:expr, $i:expr) => {
        { $b.set_dst($i.dst).set_src($i.src).set_off($i.off).set_imm($i.imm).push(); }
    };
}

fn build(ctor: &Value, i: &Insn) -> Vec<u8> {
    let mut code = BpfCode::new();
    push_one(&mut code, ctor, i);
    code.into_bytes().to_vec()
}

/// `mov64 r0, 1 ; <the instruction> ; <the instruction> ; exit` built in one BpfCode: the bytes
/// must be the concatenation of the four encodings, in order.
fn build_sequence(ctor: &Value, i: &Insn) -> Vec<u8> {
    let mut code = BpfCode::new();
    code.mov(Source::Imm, Arch::X64).set_dst(0).set_imm(1).push();
    push_one(&mut code, ctor, i);
    push_one(&mut code, ctor, i);
    code.exit().push();
    code.into_bytes().to_vec()
}

fn push_one(code: &mut BpfCode, ctor: &Value, i: &Insn) {
    let (a, b, c) = (ctor[1].as_u64().unwrap(), ctor[2].as_u64().unwrap(), ctor[3].as_u64().unwrap());
    let arch = if c == 7 { Arch::X64 } else { Arch::X32 };
    match ctor[0].as_str().unwrap() {
        "alu" => match a {
            0 => finish!(code.add(source(b), arch), i),
            1 => finish!(code.sub(source(b), arch), i),
            2 => finish!(code.mul(source(b), arch), i),
            3 => finish!(code.div(source(b), arch), i),
            4 => finish!(code.bit_or(source(b), arch), i),
            5 => finish!(code.bit_and(source(b), arch), i),
            6 => finish!(code.left_shift(source(b), arch), i),
            7 => finish!(code.right_shift(source(b), arch), i),
            8 => finish!(code.negate(arch), i),
            9 => finish!(code.modulo(source(b), arch), i),
            10 => finish!(code.bit_xor(source(b), arch), i),
            11 => finish!(code.mov(source(b), arch), i),
            _ => finish!(code.signed_right_shift(source(b), arch), i),
        },
        "swap" => finish!(code.swap_bytes(if a == 0xd4 { Endian::Little } else { Endian::Big }), i),
        "load" => finish!(code.load(msize(a)), i),
        "ldabs" => finish!(code.load_abs(msize(a)), i),
        "ldind" => finish!(code.load_ind(msize(a)), i),
        "ldx" => finish!(code.load_x(msize(a)), i),
        "st" => finish!(code.store(msize(a)), i),
        "stx" => finish!(code.store_x(msize(a)), i),
        "ja" => finish!(code.jump_unconditional(), i),
        "jcc" => finish!(code.jump_conditional(cond(a), source(b)), i),
        "call" => finish!(code.call(), i),
        "exit" => finish!(code.exit(), i),
        k => panic!("ctor {k}"),
    }
}

pub fn run_enc(rec: &Value) -> Value {
    let r = std::panic::catch_unwind(|| check(rec));
    match r {
        Ok(bad) => json!({"bad": bad}),
        Err(e) => json!({"bad": [format!("panic: {}", panic_msg(e))]}),
    }
}

fn check(rec: &Value) -> Vec<String> {
    let mut bad = Vec::new();
    let want = bytes(&rec["bytes"]);
    let i = insn_of(&rec["insn"]);
    match rec["kind"].as_str().unwrap() {
        "enc" => {
            if i.to_array().to_vec() != want {
                bad.push(format!("Insn::to_array gives {:?} for {:?}, the encoding is {:?}", i.to_array(), i, want));
            }
            if i.to_vec() != want {
                bad.push(format!("Insn::to_vec gives {:?} for {:?}, the encoding is {:?}", i.to_vec(), i, want));
            }
            for idx in [0usize, 1, 7, 1000] {
                let mut prog = vec![0u8; 8 * (idx + 2)];
                for (k, b) in prog.iter_mut().enumerate() {
                    *b = (k * 7 + 3) as u8;
                }
                prog[8 * idx..8 * idx + 8].copy_from_slice(&want);
                let d = ebpf::get_insn(&prog, idx);
                if d != i {
                    bad.push(format!("get_insn at index {idx} decodes {:?} as {:?}, the fields are {:?}", want, d, i));
                }
                if idx <= 7 {
                    let all = ebpf::to_insn_vec(&prog);
                    if all.len() != idx + 2 || all[idx] != i {
                        bad.push(format!("to_insn_vec: entry {idx} is {:?}, the fields are {:?}", all.get(idx), i));
                    }
                    // every entry is the decoding of its own slot, whatever its neighbours are
                    // (the slot after a wide load's first half is an ordinary slot for the decoder)
                    for (j, e) in all.iter().enumerate() {
                        let s = &prog[8 * j..8 * j + 8];
                        let own = ebpf::Insn { opc: s[0], dst: s[1] & 0xf, src: s[1] >> 4, off: i16::from_le_bytes([s[2], s[3]]),
                                               imm: i32::from_le_bytes([s[4], s[5], s[6], s[7]]) };
                        if *e != own {
                            bad.push(format!("to_insn_vec: entry {j} is {:?}, its slot {:?} decodes to {:?} (instruction under test at {idx})", e, s, own));
                            break;
                        }
                    }
                }
            }
        }
        "builder" => {
            let built = build(&rec["ctor"], &i);
            if built != want {
                bad.push(format!("builder {} emits {:?}, the encoding of {:?} is {:?}", rec["ctor"], built, i, want));
            }
            let seq = build_sequence(&rec["ctor"], &i);
            let mut want_seq = encode_slot(0xb7, 0, 0, 0, 1).to_vec();
            want_seq.extend_from_slice(&want);
            want_seq.extend_from_slice(&want);
            want_seq.extend_from_slice(&encode_slot(0x95, 0, 0, 0, 0));
            if seq != want_seq {
                bad.push(format!("builder {}: a four-instruction program emits {:?}, the concatenation of the encodings is {:?}", rec["ctor"], seq, want_seq));
            }
            if i.to_array().to_vec() != want {
                bad.push(format!("Insn::to_array gives {:?} for {:?}, the encoding is {:?}", i.to_array(), i, want));
            }
            if !arr(&rec["text"]).is_empty() {
                let t = text::render_prog(&rec["text"]);
                match rbpf::assembler::assemble(&t) {
                    Ok(b) if b == built => {}
                    other => bad.push(format!("assembler on `{t}` gives {:?}, builder {} gives {:?}", other, rec["ctor"], built)),
                }
            }
        }
        _ => {}
    }
    bad
}

/// All 2^32 immediates (thorough tier, optimised build): encode / decode round trip and the lane
/// law (byte j of the slot is byte j of the immediate).
pub fn sweep_imm() -> (u64, Vec<String>) {
    let mut bad = Vec::new();
    let mut n = 0u64;
    let mut prog = [0x07u8, 0x21, 0x34, 0x12, 0, 0, 0, 0];
    for m in 0..=u32::MAX {
        let i = Insn { opc: 0x07, dst: 1, src: 2, off: 0x1234, imm: m as i32 };
        let a = i.to_array();
        let le = m.to_le_bytes();
        if a[4..8] != le || a[0..4] != [0x07, 0x21, 0x34, 0x12] {
            if bad.len() < 5 { bad.push(format!("to_array of imm {m:#x} is {a:?}")); }
        }
        prog[4..8].copy_from_slice(&le);
        if ebpf::get_insn(&prog, 0).imm != m as i32 {
            if bad.len() < 5 { bad.push(format!("get_insn decodes imm {m:#x} wrongly")); }
        }
        n += 1;
    }
    (n, bad)
}

/// A long program through ONE builder object: n x `mov64 r1, 7` then `exit`, for sizes up to the
/// 1,000,000-instruction limit - the bytes must be the concatenation of the encodings (no panic).
pub fn builder_long(n: usize) -> Vec<String> {
    let r = std::panic::catch_unwind(|| {
        let mut code = BpfCode::new();
        for _ in 0..n {
            code.mov(Source::Imm, Arch::X64).set_dst(1).set_imm(7).push();
        }
        code.exit().push();
        code.into_bytes().to_vec()
    });
    match r {
        Err(e) => vec![format!("builder panicked while building a program of {} instructions: {}", n + 1, panic_msg(e))],
        Ok(b) => {
            let one = encode_slot(0xb7, 1, 0, 0, 7);
            let ok = b.len() == 8 * (n + 1) && b.chunks(8).take(n).all(|c| c == one) && b[8 * n..] == encode_slot(0x95, 0, 0, 0, 0);
            if ok { vec![] } else { vec![format!("builder program of {} instructions is not the concatenation of the encodings ({} bytes)", n + 1, b.len())] }
        }
    }
}
