//! C19: the built-in helpers against Helpers.tla.

use crate::util::*;
use rbpf::helpers;
use serde_json::{json, Value};

/// values for argument positions a helper does not use
const JUNK: [u64; 4] = [1, 2, 3, u64::MAX];

fn capture_stdout<F: FnOnce() -> u64>(f: F) -> (u64, Vec<u8>) {
    use std::io::Write;
    std::io::stdout().flush().ok();
    let mut fds = [0i32; 2];
    unsafe {
        libc::pipe(fds.as_mut_ptr());
        let saved = libc::dup(1);
        libc::dup2(fds[1], 1);
        let r = f();
        std::io::stdout().flush().ok();
        libc::dup2(saved, 1);
        libc::close(saved);
        libc::close(fds[1]);
        let mut out = Vec::new();
        let mut buf = [0u8; 512];
        loop {
            let n = libc::read(fds[0], buf.as_mut_ptr() as *mut libc::c_void, buf.len());
            if n <= 0 { break; }
            out.extend_from_slice(&buf[..n as usize]);
        }
        libc::close(fds[0]);
        (r, out)
    }
}

pub fn run_helper(rec: &Value) -> Value {
    let r = std::panic::catch_unwind(|| check(rec));
    match r {
        Ok(bad) => json!({"bad": bad}),
        Err(e) => json!({"bad": [format!("helper panicked: {}", panic_msg(e))]}),
    }
}

fn check(rec: &Value) -> Vec<String> {
    let mut bad = Vec::new();
    let a = &rec["args"];
    match rec["f"].as_str().unwrap() {
        "gather" => {
            let v: Vec<u64> = arr(a).iter().map(word).collect();
            let got = helpers::gather_bytes(v[0], v[1], v[2], v[3], v[4]);
            if got != word(&rec["exp"]) {
                bad.push(format!("gather_bytes{:x?} = {got:#x}, specified {:#x}", v, word(&rec["exp"])));
            }
        }
        "memfrob" => {
            let buf = bytes(&a[0]);
            let p = a[1].as_u64().unwrap() as usize;
            let n = a[2].as_u64().unwrap();
            let mut mem = vec![0xa5u8; 32];
            mem.extend_from_slice(&buf);
            mem.extend_from_slice(&[0xa5u8; 32]);
            let base = mem.as_mut_ptr() as u64 + 32;
            let ret = helpers::memfrob(base + p as u64 - 1, n, 0, 0, 0);
            if mem[32..32 + buf.len()] != bytes(&rec["exp"]["once"])[..] || mem[..32].iter().chain(mem[32 + buf.len()..].iter()).any(|b| *b != 0xa5) {
                bad.push(format!("memfrob(buf+{}, {n}): bytes {:?}, specified {}", p - 1, &mem[32..32 + buf.len()], rec["exp"]["once"]));
            }
            helpers::memfrob(base + p as u64 - 1, n, 0, 0, 0);
            if mem[32..32 + buf.len()] != bytes(&rec["exp"]["twice"])[..] {
                bad.push(format!("memfrob applied twice does not restore the buffer (offset {}, len {n})", p - 1));
            }
            if ret != 0 {
                bad.push(format!("memfrob returned {ret}"));
            }
            // the three unused arguments do not matter
            for junk in JUNK {
                helpers::memfrob(base + p as u64 - 1, n, junk, junk, junk);
                if mem[32..32 + buf.len()] != bytes(&rec["exp"]["once"])[..] || mem[..32].iter().chain(mem[32 + buf.len()..].iter()).any(|b| *b != 0xa5) {
                    bad.push(format!("memfrob(buf+{}, {n}) with {junk:#x} in its unused arguments: bytes {:?}, specified {}", p - 1, &mem[32..32 + buf.len()], rec["exp"]["once"]));
                }
                helpers::memfrob(base + p as u64 - 1, n, junk, junk, junk);
            }
            // nothing to touch: any pointer will do, also a null one
            if n == 0 {
                for ptr in [0u64, 1, 8, u64::MAX] {
                    helpers::memfrob(ptr, 0, 0, 0, 0);
                }
            }
        }
        "strcmp" => {
            let buf = bytes(&a[0]);
            let base = buf.as_ptr() as u64;
            let got = helpers::strcmp(base + a[1].as_u64().unwrap() - 1, base + a[2].as_u64().unwrap() - 1, 0, 0, 0);
            if got != rec["exp"].as_u64().unwrap() {
                bad.push(format!("strcmp on {:?} at {} / {} = {got}, specified {}", buf, a[1], a[2], rec["exp"]));
            }
            for junk in JUNK {
                let g = helpers::strcmp(base + a[1].as_u64().unwrap() - 1, base + a[2].as_u64().unwrap() - 1, junk, junk, junk);
                if g != rec["exp"].as_u64().unwrap() {
                    bad.push(format!("strcmp on {:?} at {} / {} with {junk:#x} in its unused arguments = {g}, specified {}", buf, a[1], a[2], rec["exp"]));
                }
            }
        }
        "strcmpnull" => {
            let s = [97u8, 0];
            let p = s.as_ptr() as u64;
            let got = match a[0].as_u64().unwrap() { 1 => helpers::strcmp(0, p, 0, 0, 0), 2 => helpers::strcmp(p, 0, 0, 0, 0), _ => helpers::strcmp(0, 0, 0, 0, 0) };
            if got != u64::MAX {
                bad.push(format!("strcmp with a null pointer (case {}) = {got:#x}, specified all-ones", a[0]));
            }
        }
        "printf" => {
            let v: Vec<u64> = arr(a).iter().map(word).collect();
            let (ret, out) = capture_stdout(|| helpers::bpf_trace_printf(0, 0, v[0], v[1], v[2]));
            let want = rec["exp"].as_u64().unwrap();
            if ret != want || out.len() as u64 != want {
                bad.push(format!("bpf_trace_printf({:#x}, {:#x}, {:#x}) returned {ret}, printed {} bytes, specified {want}", v[0], v[1], v[2], out.len()));
            }
        }
        f => bad.push(format!("unknown helper case {f}")),
    }
    bad
}

fn isqrt(x: u64) -> u64 {
    let mut r = (x as f64).sqrt() as u64;
    while r.checked_mul(r).map(|s| s > x).unwrap_or(true) { r -= 1; }
    while (r + 1).checked_mul(r + 1).map(|s| s <= x).unwrap_or(false) { r += 1; }
    r
}

/// Observations of sqrti and rand for TLC (MC_Helpers in trace mode).
pub fn observe(seed: u64, n: usize) -> Vec<Value> {
    let mut r = Rng::new(seed ^ 0xc19);
    let mut ev = Vec::new();
    let mut xs: Vec<u64> = vec![0, 1, 2, 3, 4, 15, 16, 17, u64::MAX, u64::MAX - 1, 1 << 52, (1 << 52) - 1, (1 << 52) + 1, 1 << 63];
    for j in [1u64, 2, 8, 13, 16, 20, 24, 25, 26, 27, 30, 31, 32] {
        for k in [(1u64 << j) - 1, 1 << j, (1 << j) + 1, (1u64 << j) + (1 << (j / 2))] {
            if let Some(sq) = k.checked_mul(k) {
                xs.extend_from_slice(&[sq.wrapping_sub(1), sq, sq.wrapping_add(1)]);
            }
        }
    }
    for _ in 0..n {
        let k = r.next() >> (r.below(40) + 12);
        xs.push(k);
        let root = isqrt(k);
        xs.push(root * root);
        xs.push((root * root).wrapping_sub(1));
    }
    for x in xs {
        let junk = JUNK[(x % 4) as usize] * (x & 1);
        let res = std::panic::catch_unwind(|| helpers::sqrti(x, junk, junk, junk, junk));
        ev.push(json!({"f": "sqrti", "args": [word_json(x)], "ret": word_json(res.as_ref().copied().unwrap_or(0)), "ok": res.is_ok()}));
    }
    let pairs: Vec<(u64, u64)> = vec![(0, 1), (0, u64::MAX), (1, u64::MAX), (u64::MAX - 1, u64::MAX), (5, 6), (0, 0), (7, 3), (10, 20),
                                     (1 << 63, (1 << 63) + 1), (0, 255), (u64::MAX, u64::MAX), (100, 100)];
    for (mn, mx) in pairs {
        for _ in 0..(20 + n / 10) {
            let junk = JUNK[(mn % 4) as usize] * (mx & 1);
            let res = std::panic::catch_unwind(|| helpers::rand(mn, mx, junk, junk, junk));
            ev.push(json!({"f": "rand", "args": [word_json(mn), word_json(mx)], "ret": word_json(res.as_ref().copied().unwrap_or(0)), "ok": res.is_ok()}));
        }
    }
    ev
}
