"""Per-property checks.  Each entry of CHECKS gives the level claimed, the generation rule
(for evidence) and a run(ctx) function that drives TLC and the harness."""
import os, json, time
import core
from core import ToolError, run_tlc, rv, WORK, ROOT

BASE_CONSTS = {"NB": 8, "LB": 8}

ASSUME_COMMON = [
    "TLC and the CommunityModules Java overrides (Json, SequencesExt.FoldLeft, Bitwise) are correct",
    "limb algorithms of Word.tla: agree with the mathematical definitions on every operand pair at 6/8 bits (MC_WordSmall, MC_AluSmall) and with the host's native u64/i64 arithmetic on boundary and pseudo-random operand pairs at 64 bits (MC_Word64, run by C01)",
    "harness projections: JSON<->bytes, fixed-address buffers (mmap MAP_FIXED_NOREPLACE), fork/waitpid isolation, error-message -> class mapping",
    "x86-64 little-endian Linux host",
]


# ------------------------------------------------------------------------------------------------
# Direction B: TLC enumerates cases of Cases.tla and the outcomes Machine.tla allows; the harness
# replays them on the real engines.
# ------------------------------------------------------------------------------------------------
def exec_cases(ctx, tag, families, rate, workers=10, timeout=900, devs=None):
    """Run MC_Exec for the given families; returns the REPLAY records (case + allowed outcome)."""
    if not ctx.quick:
        timeout = max(timeout, 6000)          # (the full enumerations take long on a loaded machine)
    consts = dict(BASE_CONSTS)
    consts.update({"Seed": ctx.seed, "Rate": rate, "Families": set(families), "Deep": not ctx.quick,
                   "KnownDevs": set(core.known_devs(ctx.prop)) if devs is None else set(devs)})
    r = run_tlc(f"{ctx.prop}-{tag}", "MC_Exec", consts, invariants=["Inv"], workers=workers, timeout=timeout)
    if r.violation:
        # a design-level invariant of the specification itself failed
        ctx.violation(f"specification invariant violated in MC_Exec[{tag}]: {r.violation[:500]}",
                      {"kind": "tlc", "model": "MC_Exec", "families": sorted(families), "output": r.violation[:4000]})
    ctx.add_tlc(f"MC_Exec[{','.join(sorted(families))}] rate=1/{rate}", r)
    return r.replay


def replay_exec(ctx, tag, records, engines, pair=None, claim=None, timeout_ms=20000):
    """Replay records on the real code.  Disagreements become violations or known findings.
    claim(failure) -> bool selects the failures that concern this property (default: all)."""
    if not records:
        raise ToolError(f"no cases generated for {tag}")
    path = os.path.join(ctx.workdir, f"{tag}.cases.ndjson")
    with open(path, "w") as f:
        for r in records:
            f.write(json.dumps(r) + "\n")
    # the harness replays one case at a time (each in a forked child): large case sets are split
    # over several harness processes.  Records of one case (several admissible outcomes) stay together.
    from concurrent.futures import ThreadPoolExecutor
    nshards = 1 if len(records) < 2000 else 6
    shards = [[] for _ in range(nshards)]
    where = {}
    for r in records:
        key = json.dumps([r["case"]["fam"], r["case"]["id"], r["case"]["vm"]])
        if key not in where:
            where[key] = len(where) % nshards
        shards[where[key]].append(r)

    def one(k):
        sp = os.path.join(ctx.workdir, f"{tag}.cases.{k}.ndjson") if nshards > 1 else path
        if nshards > 1:
            with open(sp, "w") as f:
                for r in shards[k]:
                    f.write(json.dumps(r) + "\n")
        rp = os.path.join(ctx.workdir, f"{tag}.report.{k}.json")
        args = ["replay", "--cases", sp, "--engines", ",".join(engines), "--report", rp,
                "--timeout-ms", str(timeout_ms), "--max-fail", "400"]
        if pair:
            args += ["--pair", pair]
        rv(args, timeout=6000)
        return json.load(open(rp))

    with ThreadPoolExecutor(max_workers=nshards) as ex:
        reps = list(ex.map(one, [k for k in range(nshards) if shards[k]]))
    rep = reps[0]
    for other in reps[1:]:
        for k in ("pass", "runs", "cases", "fail"):
            rep[k] += other[k]
        if "disagreements_checked" in rep or "disagreements_checked" in other:
            rep["disagreements_checked"] = rep.get("disagreements_checked", 0) + other.get("disagreements_checked", 0)
        for k in ("skipped", "known", "per_engine"):
            for kk, n in other.get(k, {}).items():
                rep.setdefault(k, {})[kk] = rep.get(k, {}).get(kk, 0) + n
        rep["failures"] += other["failures"]
        rep["samples"] += other["samples"]
    ctx.traces += rep["pass"]
    ctx.evaluations += rep["runs"]
    ctx.programs += rep["cases"]
    for k, n in rep["skipped"].items():
        ctx.skip(k, n)
    for k, n in rep.get("known", {}).items():
        ctx.known_hits[k] = ctx.known_hits.get(k, 0) + n
    for s in rep["samples"]:
        ctx.sample(s)
    for f in rep["failures"]:
        if claim and not claim(f):
            ctx.skip("failure-belongs-to-another-property", 1)
            continue
        ctx.violation(f"[{f['engine']}] {f['reason']}",
                      {"kind": "exec", "case": f["case"], "engine": f["engine"],
                       "expected": f["expected"], "observed": f["observed"]})
    if rep["fail"] > len(rep["failures"]):
        ctx.notes.append(f"{tag}: {rep['fail']} failing runs, first {len(rep['failures'])} recorded")
    ctx.extra.setdefault("runs_per_engine", {})
    for e, n in rep["per_engine"].items():
        ctx.extra["runs_per_engine"][e] = ctx.extra["runs_per_engine"].get(e, 0) + n
    return rep


# ------------------------------------------------------------------------------------------------
# Direction A: executions recorded from the real interpreter (hook H1), validated by TLC against
# Machine.tla (TraceInterp.tla): every register of every step, helper calls, outcome, memory.
# ------------------------------------------------------------------------------------------------
def validate_trace(ctx, tag, path, devs):
    r = run_tlc(tag, "TraceInterp", {"NB": 8, "LB": 8, "TraceDevs": set(devs), "CheckEngines": {"C03": {"jit"}, "C04": {"cl"}}.get(ctx.prop, set())}, spec="TraceSpec",
                invariants=["TraceInv"], postcondition="TraceAccepted", workers=1, timeout=1800,
                env={"TRACE": path}, expect_violation=True)
    import re
    m = re.search(r'<<"TRACE-ACCEPTED", (\d+), "deviation-steps", (\d+)>>', r.out)
    if m:
        return r, ("accepted", int(m.group(1)), int(m.group(2)))
    m = re.search(r'<<"TRACE-REJECTED", (\d+), (\d+)>>', r.out)
    if m:
        return r, ("rejected", int(m.group(1)), int(m.group(2)))
    if "Invariant TraceInv is violated" in r.out:
        return r, ("invariant", 0, 0)
    raise ToolError(f"trace validation {tag} failed:\n" + r.out[-2500:])


def trace_interp(ctx, tag, n, mode="mixed", chunks=8, cases_file=None):
    """Record n random accepted programs on the interpreter and validate every step with TLC."""
    from concurrent.futures import ThreadPoolExecutor
    prefix = os.path.join(ctx.workdir, f"{tag}.trace")
    args = ["record-interp", "--seed", str(ctx.seed), "--n", str(n), "--mode", mode, "--out-prefix", prefix,
            "--chunks", str(chunks)]
    if cases_file:
        args += ["--cases", cases_file]
    rv(args, timeout=1800)
    summ = json.load(open(prefix + ".summary.json"))
    ctx.extra.setdefault("recorded", {})[tag] = {k: summ[k] for k in ("generated", "accepted", "rejected_by_verifier", "events", "outcomes")}
    for c in summ["crashes"]:
        ctx.violation(f"the process died while running a verifier-accepted program ({c['how']}): the interpreter runs first, then - if it returned a value - the compiled engines in the same process",
                      {"kind": "trace", "case": c["case"], "how": c["how"]})
    # deviations of recorded interpreter findings are enabled whatever the property (otherwise a
    # trace stops being checked at the first deviating step); they are REPORTED only by the
    # properties the finding is recorded against
    devs = sorted({f["key"] for f in core.load_known()["findings"] if "interpreter" in f["where"]})
    index = summ["index"]

    def one(k):
        path = f"{prefix}.{k}.ndjson"
        lines = open(path).read().splitlines()
        runs = [e for e in index if e["chunk"] == k]
        out = {"events": 0, "runs_ok": 0, "dev": 0, "bad": [], "states": 0, "gen": 0}
        attempt = 0
        while lines and attempt < 6:
            attempt += 1
            cur = f"{prefix}.{k}.try{attempt}.ndjson"
            open(cur, "w").write("\n".join(lines) + "\n")
            r, (verdict, a, b) = validate_trace(ctx, f"{ctx.prop}-{tag}-{k}-{attempt}", cur, devs)
            out["states"] += r.distinct
            out["gen"] += r.generated
            if verdict == "accepted":
                out["events"] += a
                out["dev"] += b
                out["runs_ok"] += sum(1 for ln in lines if ln.startswith('{"case"') or '"e":"start"' in ln[:40] or '"e":"start"' in ln[-80:])
                break
            # find the run that contains the first unmatched event, report it, cut it out, go on
            pos = a if verdict == "rejected" else 1
            starts = [i for i, ln in enumerate(lines) if '"e":"start"' in ln]
            si = max([i for i in starts if i < pos] or [0])
            nxt = min([i for i in starts if i > si] or [len(lines)])
            ev = json.loads(lines[min(pos - 1, len(lines) - 1)])
            case = json.loads(lines[si])["case"]
            out["bad"].append({"case": case, "event_index_in_run": pos - si, "event": ev, "verdict": verdict,
                               "tlc": r.out[-1500:] if verdict == "invariant" else ""})
            out["events"] += si
            lines = lines[:si] + lines[nxt:]
        return out

    with ThreadPoolExecutor(max_workers=min(chunks, 8)) as ex:
        res = list(ex.map(one, range(chunks)))
    total_events = sum(r["events"] for r in res)
    ctx.states += sum(r["states"] for r in res)
    ctx.transitions += sum(r["gen"] for r in res)
    ctx.tlc_runs.append({"model": f"TraceInterp[{tag}] x{chunks}", "events_validated": total_events,
                         "distinct_states": sum(r["states"] for r in res)})
    ctx.traces += summ["accepted"] - sum(len(r["bad"]) for r in res)
    ctx.evaluations += summ["accepted"]
    ctx.extra.setdefault("trace_events_validated", 0)
    ctx.extra["trace_events_validated"] += total_events
    ndev = sum(r["dev"] for r in res)
    if ndev and "jmp_imm_zext" in core.known_devs(ctx.prop):
        ctx.known_hits["jmp_imm_zext"] = ctx.known_hits.get("jmp_imm_zext", 0) + ndev
    elif ndev:
        ctx.notes.append(f"{ndev} step(s) explained by the deviation of known finding jmp_imm_zext (recorded against C01/C03/C04)")
    for r in res:
        for b in r["bad"]:
            ev = b["event"]
            what = {"step": "the interpreter's state before this instruction is not the state the specification reaches",
                    "end": "the outcome / final memory differs from the specification's"
                           + (" or a compiled engine's result differs from the interpreter's on a run the specification judges defined: jit="
                              + json.dumps(ev.get("jit", {}).get("val")) + " cl=" + json.dumps(ev.get("cl", {}).get("val")) + " interp=" + json.dumps(ev.get("val")) if ctx.prop in ("C03", "C04") else ""),
                    "helper": "unexpected helper call", "start": "initial context differs"}.get(ev.get("e"), "unexplained event")
            ctx.violation(f"recorded interpreter run is not a behaviour of Machine.tla at event {b['event_index_in_run']} ({ev.get('e')}, pc={ev.get('pc')}): {what}",
                          {"kind": "trace", "case": b["case"], "event": ev, "event_index_in_run": b["event_index_in_run"]})
    if summ["accepted"]:
        first = json.loads(open(f"{prefix}.0.ndjson").readline())
        ctx.sample({"recorded_run_start_event": {"case_id": first["case"]["id"], "vm": first["case"]["vm"],
                                                 "program_slots": len(first["case"]["prog"])}})
    return summ


def repo_engine_traces(ctx, engine):
    """Direction A for the compiled engines on the repository's own tests (hook H5): every run of
    JIT- / Cranelift-compiled code made by tests/ubpf_jit_x86_64.rs, tests/misc.rs (C03) or
    tests/cranelift.rs (C04) is recorded with its inputs and result; TraceInterp runs the machine
    from those inputs (silent steps) and compares the result where it judges the run defined."""
    import testtraces
    which = ["--test", "ubpf_jit_x86_64", "--test", "misc"] if engine == "jit" else ["--features", "cranelift", "--test", "cranelift"]
    tdir, failed = run_repo_tests(ctx, which, False, target="repo-tests-target" + ("-cl" if engine == "cl" else ""))
    paths, nruns, aside, nev = testtraces.convert_dir(tdir, os.path.join(ctx.workdir, f"repo-tests.{engine}.trace"), chunks=1, engines=(engine,))
    if nruns < 80:
        raise ToolError(f"only {nruns} runs of {engine}-compiled code were recorded from /repo's tests")
    devs = sorted({f["key"] for f in core.load_known()["findings"] if "interpreter" in f["where"]})
    lines = open(paths[0]).read().splitlines()
    # negative control: one recorded result changed -> rejected at that event
    k = next(i for i, ln in enumerate(lines) if '"e":"eend"' in ln and i > len(lines) // 2)
    ev = json.loads(lines[k])
    ev["val"][0] ^= 1
    bad = paths[0] + ".negctl"
    open(bad, "w").write("\n".join(lines[:k] + [json.dumps(ev)] + lines[k + 1:]) + "\n")
    r, (verdict, a, b) = validate_trace(ctx, f"{ctx.prop}-repo-eng-negctl", bad, devs)
    if not (verdict == "rejected" and a == k + 1):
        raise ToolError(f"negative control failed: a changed result of a compiled run was not rejected there ({verdict} at {a}, expected {k + 1})")
    nbad = 0
    events = 0
    attempt = 0
    while lines and attempt < 8:
        attempt += 1
        cur = f"{paths[0]}.try{attempt}"
        open(cur, "w").write("\n".join(lines) + "\n")
        r, (verdict, a, b) = validate_trace(ctx, f"{ctx.prop}-repo-eng-{attempt}", cur, devs)
        ctx.states += r.distinct
        ctx.transitions += r.generated
        if verdict == "accepted":
            events += a
            break
        pos = a if verdict == "rejected" else 1
        starts = [i for i, ln in enumerate(lines) if ln.startswith('{"e":"estart"')]
        si = max([i for i in starts if i < pos] or [0])
        nxt = min([i for i in starts if i > si] or [len(lines)])
        ev = json.loads(lines[min(si + 1, len(lines) - 1)])
        nbad += 1
        ctx.violation(f"[{engine}] a run of compiled code made by /repo's own tests returned {json.dumps(ev.get('val'))} / left bytes that the specification's machine does not produce from the same program and input",
                      {"kind": "trace", "case": json.loads(lines[si])["case"], "event": ev, "engine": engine})
        events += si
        lines = lines[:si] + lines[nxt:]
    ctx.traces += nruns - nbad
    ctx.evaluations += nruns
    ctx.extra["repo_tests_compiled_runs"] = {"engine": engine, "runs_validated": nruns - nbad, "events": events, "set_aside": aside, "test_commands_failing": failed,
                                             "negative_control": "a changed result is rejected by TraceInterp!EngEnd at exactly that event"}


def run_repo_tests(ctx, which, doc, target="repo-tests-target"):
    """Run /repo's own tests (working tree) with the recorder hooks on; -> (trace dir, failing commands)."""
    import shutil
    tdir = os.path.join(ctx.workdir, "test-traces")
    shutil.rmtree(tdir, ignore_errors=True)
    os.makedirs(tdir)
    env = {"RUSTFLAGS": "--cfg rbpf_verif", "CARGO_TARGET_DIR": os.path.join(WORK, target),
           "RBPF_VERIF_TRACE_DIR": tdir, "CARGO_NET_OFFLINE": "true"}
    cmds = [["cargo", "test", "--offline", "-j", "8"] + which]
    if doc:
        cmds.append(["cargo", "test", "--offline", "-j", "8", "--doc"])
    failed = 0
    for cmd in cmds:
        p = core.sh(cmd, cwd=core.REPO, env=env, check=False, timeout=1800)
        if "could not compile" in p.stdout or "error: no test target" in p.stdout:
            raise ToolError("building /repo's tests with the recorder failed:\n" + p.stdout[-3000:])
        if p.returncode != 0:
            failed += 1       # a failing test is the suite's business; what it recorded is validated all the same
    return tdir, failed


def repo_test_verdicts(ctx, doc=False):
    """Direction A for the verifier (hook H4): every verdict the default verifier gave while /repo's
    tests ran must be Verifier!Verdict's (TraceVerdict.tla)."""
    import re, testtraces
    tdir, failed = run_repo_tests(ctx, ["--tests"], doc)
    path = os.path.join(ctx.workdir, "repo-tests.verdicts.ndjson")
    n, acc, skipped = testtraces.convert_verdicts(tdir, path)
    if n < 100:
        raise ToolError(f"only {n} verifier verdicts were recorded from /repo's tests")
    lines = open(path).read().splitlines()
    # negative control: one verdict flipped -> rejected at that event
    k = len(lines) // 2
    ev = json.loads(lines[k])
    ev["accept"] = not ev["accept"]
    bad = path + ".negctl"
    open(bad, "w").write("\n".join(lines[:k] + [json.dumps(ev)] + lines[k + 1:]) + "\n")
    r = run_tlc(f"{ctx.prop}-traceverdict-negctl", "TraceVerdict", {}, spec="TraceSpec", invariants=["Mark"],
                postcondition="TraceAccepted", workers=1, timeout=600, env={"TRACE": bad}, expect_violation=True)
    m = re.search(r'<<"TRACE-REJECTED", (\d+), (\d+)>>', r.out)
    if not m or int(m.group(1)) != k + 1:
        raise ToolError("negative control failed: a flipped verdict was not rejected by TraceVerdict")
    validated = 0
    attempt = 0
    while lines and attempt < 8:
        attempt += 1
        cur = f"{path}.try{attempt}"
        open(cur, "w").write("\n".join(lines) + "\n")
        r = run_tlc(f"{ctx.prop}-traceverdict-{attempt}", "TraceVerdict", {}, spec="TraceSpec", invariants=["Mark"],
                    postcondition="TraceAccepted", workers=1, timeout=600, env={"TRACE": cur}, expect_violation=True)
        ctx.states += r.distinct
        ctx.transitions += r.generated
        m = re.search(r'<<"TRACE-ACCEPTED", (\d+)>>', r.out)
        if m:
            validated += int(m.group(1))
            break
        m = re.search(r'<<"TRACE-REJECTED", (\d+), (\d+)>>', r.out)
        if not m:
            raise ToolError("TraceVerdict failed:\n" + r.out[-2000:])
        pos = int(m.group(1))
        ev = json.loads(lines[pos - 1])
        ctx.violation(f"a verdict of the default verifier recorded while /repo's tests ran is not Verifier!Verdict's: "
                      f"{'accepted' if ev['accept'] else 'refused (' + ev['msg'][:80] + ')'} a program of {ev['nbytes']} bytes",
                      {"kind": "verdict-event", "event": ev})
        validated += pos - 1
        lines = lines[:pos - 1] + lines[pos:]
    ctx.traces += validated
    ctx.evaluations += n
    ctx.extra["repo_tests"] = {"distinct_verdicts_validated": validated, "accepted": acc, "refused": n - acc, "not_recorded_too_long": skipped,
                               "test_commands_failing": failed, "what": "every call of the default verifier made by /repo's tests" + (" and doc-tests" if doc else ""),
                               "negative_control": "a flipped verdict is rejected by TraceVerdict at exactly that event"}


def repo_test_traces(ctx, doc=False):
    """Direction A on the repository's own tests (hook H3): run tests/ubpf_vm.rs and tests/misc.rs
    (thorough: the doc-tests too) of /repo's working tree with the execution recorder on, and
    validate every recorded interpreter run, instruction by instruction, against Machine.tla."""
    import testtraces
    from concurrent.futures import ThreadPoolExecutor
    tdir, failed_tests = run_repo_tests(ctx, ["--test", "ubpf_vm", "--test", "misc"], doc)
    chunks = 4
    paths, nruns, aside, nev = testtraces.convert_dir(tdir, os.path.join(ctx.workdir, "repo-tests.trace"), chunks=chunks)
    if nruns < 100:
        raise ToolError(f"only {nruns} interpreter runs were recorded from /repo's tests")
    devs = sorted({f["key"] for f in core.load_known()["findings"] if "interpreter" in f["where"]})

    def one(path):
        lines = open(path).read().splitlines()
        out = {"events": 0, "dev": 0, "bad": [], "states": 0, "gen": 0}
        attempt = 0
        while lines and attempt < 8:
            attempt += 1
            cur = f"{path}.try{attempt}"
            open(cur, "w").write("\n".join(lines) + "\n")
            r, (verdict, a, b) = validate_trace(ctx, f"{ctx.prop}-repo-tests-{os.path.basename(path)}-{attempt}", cur, devs)
            out["states"] += r.distinct
            out["gen"] += r.generated
            if verdict == "accepted":
                out["events"] += a
                out["dev"] += b
                break
            pos = a if verdict == "rejected" else 1
            starts = [i for i, ln in enumerate(lines) if ln.startswith('{"e":"start"')]
            si = max([i for i in starts if i < pos] or [0])
            nxt = min([i for i in starts if i > si] or [len(lines)])
            ev = json.loads(lines[min(pos - 1, len(lines) - 1)])
            out["bad"].append({"case": json.loads(lines[si])["case"], "event_index_in_run": pos - si, "event": ev})
            out["events"] += si
            lines = lines[:si] + lines[nxt:]
        return out

    with ThreadPoolExecutor(max_workers=chunks) as ex:
        res = list(ex.map(one, paths))
    ctx.states += sum(r["states"] for r in res)
    ctx.transitions += sum(r["gen"] for r in res)
    nbad = sum(len(r["bad"]) for r in res)
    ctx.traces += nruns - nbad
    ctx.evaluations += nruns
    ndev = sum(r["dev"] for r in res)
    if ndev and "jmp_imm_zext" in core.known_devs(ctx.prop):
        ctx.known_hits["jmp_imm_zext"] = ctx.known_hits.get("jmp_imm_zext", 0) + ndev
    ctx.extra["repo_tests"] = {"interpreter_runs_validated": nruns - nbad, "events": sum(r["events"] for r in res), "set_aside": aside,
                               "test_commands_failing": failed_tests, "steps_explained_by_known_finding": ndev,
                               "what": "every interpreter run of tests/ubpf_vm.rs + tests/misc.rs" + (" + doc-tests" if doc else "")}
    ctx.tlc_runs.append({"model": f"TraceInterp[repo tests] x{chunks}", "events_validated": sum(r["events"] for r in res)})
    for r in res:
        for b in r["bad"]:
            ev = b["event"]
            ctx.violation(f"an interpreter run of /repo's own tests is not a behaviour of Machine.tla at event {b['event_index_in_run']} ({ev.get('e')}, pc={ev.get('pc')})",
                          {"kind": "trace", "case": b["case"], "event": ev, "event_index_in_run": b["event_index_in_run"]})


def negative_controls_C01(ctx, recs):
    """Demonstrate the binding (DESIGN 4.4): a corrupted trace must be rejected at the corrupted
    event, and a case file with one expected value changed must make the replay report it.
    A control that does not fire is a tool error (exit 2), never a pass."""
    # (a) trace: flip one bit of one register in one step event of the first recorded chunk
    src = os.path.join(ctx.workdir, "structured.trace.0.ndjson")
    lines = open(src).read().splitlines()
    idx = [i for i, ln in enumerate(lines) if '"e":"step"' in ln]
    k = idx[len(idx) // 2]
    ev = json.loads(lines[k])
    ev["regs"][10][0] ^= 1
    bad = lines[:k] + [json.dumps(ev)] + lines[k + 1:]
    path = os.path.join(ctx.workdir, "negctl.trace.ndjson")
    open(path, "w").write("\n".join(bad) + "\n")
    devs = sorted({f["key"] for f in core.load_known()["findings"] if "interpreter" in f["where"]})
    r, (verdict, a, b) = validate_trace(ctx, f"{ctx.prop}-negctl", path, devs)
    if not (verdict == "rejected" and a == k + 1):
        raise ToolError(f"negative control failed: corrupted event {k + 1} -> {verdict} at {a}")
    # (b) replay: change one expected value
    ok_recs = [x for x in recs if x["exp"]["k"] == "ok" and x["exp"]["defd"] and not x["case"]["dev"]][:20]
    mutated = json.loads(json.dumps(ok_recs))
    mutated[7]["exp"]["val"][0] ^= 1
    cpath = os.path.join(ctx.workdir, "negctl.cases.ndjson")
    open(cpath, "w").write("\n".join(json.dumps(x) for x in mutated) + "\n")
    rpath = os.path.join(ctx.workdir, "negctl.report.json")
    rv(["replay", "--cases", cpath, "--engines", "interp", "--report", rpath])
    if json.load(open(rpath))["fail"] != 1:
        raise ToolError("negative control failed: a changed expected value was not reported by the replay")
    ctx.extra["negative_controls"] = ["a step event with one flipped register bit is rejected by TraceInterp at exactly that event",
                                      "a case with one changed expected byte is reported by rv replay"]


def word64_model(ctx):
    """Word.tla at 64 bits against the host's native arithmetic (boundary + pseudo-random operand pairs)."""
    nr = 30 if ctx.quick else 180
    r = run_tlc(f"{ctx.prop}-word64", "MC_Word64", {"NB": 8, "LB": 8, "Seed": ctx.seed, "NR": nr}, invariants=["Emit"], workers=10, timeout=1500)
    ctx.add_tlc(f"MC_Word64 NR={nr}", r)
    path = os.path.join(ctx.workdir, "word64.ndjson")
    open(path, "w").write("\n".join(json.dumps(x) for x in r.replay) + "\n")
    rep_path = os.path.join(ctx.workdir, "word64.report.json")
    rv(["words", "--cases", path, "--report", rep_path])
    rep = json.load(open(rep_path))
    if rep["pairs"] < 1000:
        raise ToolError(f"MC_Word64 produced only {rep['pairs']} operand pairs")
    for f in rep["failures"]:
        ctx.violation("Word.tla disagrees with native 64-bit arithmetic (a defect of the specification's arithmetic, not of rbpf): " + f["reason"][:300],
                      {"kind": "word64", "record": f["record"]})
    ctx.extra["word64_operand_pairs_agreeing_with_native_arithmetic"] = rep["pairs"] - rep["fail"]


def small_width_models(ctx, which=("word", "alu")):
    """Exhaustive agreement of the limb arithmetic / ALU semantics with mathematics at 8 bits."""
    for name, module, cfgs in (("word", "MC_WordSmall", ((2, 4),) if ctx.quick else ((2, 4), (4, 2), (2, 3))),
                               ("alu", "MC_AluSmall", ((2, 4),) if ctx.quick else ((2, 4), (4, 2)))):
        if name not in which:
            continue
        for nb, lb in cfgs:
            r = run_tlc(f"{ctx.prop}-{module}-{nb}x{lb}", module, {"NB": nb, "LB": lb}, invariants=["AllOK"],
                        workers=10, timeout=900)
            if r.violation:
                ctx.violation(f"{module} NB={nb} LB={lb}: limb algorithm disagrees with its mathematical definition",
                              {"kind": "tlc", "model": module, "output": r.violation[:4000]})
            ctx.add_tlc(f"{module} NB={nb} LB={lb}", r)


# ------------------------------------------------------------------------------------------------
# C01 / C03 / C04: instruction semantics on the three engines
# ------------------------------------------------------------------------------------------------
# the frame family (an instruction changes its destination and nothing else) is enumerated more
# densely than the operand families in the quick tier
FRAME_RATE = 8


def run_C01(ctx):
    small_width_models(ctx)
    word64_model(ctx)
    rate = 24 if ctx.quick else 1
    recs = exec_cases(ctx, "isa", ["alu", "jmp", "far", "farcall", "mem", "cfg", "calls"], rate, timeout=1500)
    recs += exec_cases(ctx, "frame", ["frame"], FRAME_RATE if ctx.quick else 1, timeout=1500)
    recs += exec_cases(ctx, "flow", ["flow"], 1, timeout=1500)
    recs += exec_cases(ctx, "pairs", ["pairs"], 3 if ctx.quick else 1, timeout=1500)
    ctx.nontrivial = len({json.dumps(r["case"]["id"]) for r in recs})
    replay_exec(ctx, "isa", recs, ["interp"])
    # direction A: random terminating programs, every step validated
    trace_interp(ctx, "structured", 150 if ctx.quick else 4000, mode="structured")
    repo_test_traces(ctx, doc=not ctx.quick)
    negative_controls_C01(ctx, recs)
    ops = {sg[1][0] for r_ in recs for sg in r_["case"]["prog"]}
    ctx.extra["distinct_opcodes_in_cases"] = len(ops)
    if not ctx.quick and len(ops) < 100:
        raise ToolError(f"vacuity: only {len(ops)} distinct opcodes in the enumerated cases")


def run_C03(ctx):
    rate = 24 if ctx.quick else 1
    recs = exec_cases(ctx, "isa", ["alu", "jmp", "far", "farcall", "mem", "cfg", "calls"], rate, timeout=1500)
    recs += exec_cases(ctx, "frame", ["frame"], FRAME_RATE if ctx.quick else 1, timeout=1500)
    recs += exec_cases(ctx, "flow", ["flow"], 1, timeout=1500)
    recs += exec_cases(ctx, "pairs", ["pairs"], 3 if ctx.quick else 1, timeout=1500)
    ctx.nontrivial = len({json.dumps(r["case"]["id"]) for r in recs})
    rep = replay_exec(ctx, "isa", recs, ["jit"], pair="interp")
    ctx.disagreements_checked = rep.get("disagreements_checked", 0)
    # direction A: random structured programs on both engines, adjudicated by the trace specification
    trace_interp(ctx, "structured", 150 if ctx.quick else 4000, mode="structured")
    repo_engine_traces(ctx, "jit")


def run_C04(ctx):
    rate = 24 if ctx.quick else 1
    recs = exec_cases(ctx, "isa", ["alu", "jmp", "far", "farcall", "mem", "calls", "cfg"], rate, timeout=1500)
    recs += exec_cases(ctx, "frame", ["frame"], FRAME_RATE if ctx.quick else 1, timeout=1500)
    recs += exec_cases(ctx, "flow", ["flow"], 1, timeout=1500)
    recs += exec_cases(ctx, "pairs", ["pairs"], 3 if ctx.quick else 1, timeout=1500)
    ctx.nontrivial = len({json.dumps(r["case"]["id"]) for r in recs})
    ctx.extra["programs_with_local_calls_must_be_refused"] = sum(
        1 for r in recs if any(sg[1][0] == 0x85 and sg[1][2] == 1 for sg in r["case"]["prog"]))
    rep = replay_exec(ctx, "isa", recs, ["cl"], pair="interp")
    ctx.disagreements_checked = rep.get("disagreements_checked", 0)
    trace_interp(ctx, "structured", 150 if ctx.quick else 4000, mode="structured")
    repo_engine_traces(ctx, "cl")


def run_C02(ctx):
    rate = 6 if ctx.quick else 1
    recs = exec_cases(ctx, "bounds", ["bounds"], rate, timeout=1500)
    ctx.nontrivial = len({json.dumps(r["case"]["id"]) for r in recs})
    replay_exec(ctx, "bounds", recs, ["interp"])
    repo_test_traces(ctx, doc=not ctx.quick)      # the suite's own out-of-bounds and in-bounds runs, step by step
    ctx.extra["refused"] = sum(1 for r in recs if r["exp"]["k"] == "err")
    ctx.extra["performed"] = sum(1 for r in recs if r["exp"]["k"] == "ok")


def run_C11(ctx):
    rate = 6 if ctx.quick else 1
    recs = exec_cases(ctx, "bounds", ["bounds"], rate, timeout=1500)
    recs = [r for r in recs if not r["case"]["allow"]]
    # accesses whose check an engine may be tempted to reuse or elide (family flow: the same base
    # register rewritten between two accesses, aliases of one location, pointers built without mov)
    recs += [r for r in exec_cases(ctx, "flow", ["flow"], 1, timeout=1500) if r["case"]["id"][0] in ("uawmem", "alias")]
    ctx.nontrivial = len({json.dumps(r["case"]["id"]) for r in recs})
    replay_exec(ctx, "bounds", recs, ["cl"])
    ctx.extra["must_trap"] = sum(1 for r in recs if r["exp"]["k"] == "err")
    ctx.extra["must_be_performed"] = sum(1 for r in recs if r["exp"]["k"] == "ok")


def run_C07(ctx):
    rate = 2 if ctx.quick else 1
    recs = exec_cases(ctx, "calls", ["calls", "farcall"], rate, timeout=1500)
    ctx.nontrivial = len({json.dumps(r["case"]["id"]) for r in recs})
    replay_exec(ctx, "calls", recs, ["interp", "jit"])
    # direction A: random programs with chains of local functions (own stack slots, callee-saved
    # registers, helper calls inside functions): call depth, r6-r10 and return addresses of every
    # step are validated by TraceInterp
    trace_interp(ctx, "structured", 200 if ctx.quick else 5000, mode="structured")
    repo_test_traces(ctx, doc=not ctx.quick)
    ctx.extra["depths"] = sorted({r["case"]["id"][1] for r in recs if r["case"]["id"][0] in ("chain", "rec")})
    ctx.extra["error_outcomes"] = sum(1 for r in recs if r["exp"]["k"] == "err")


def run_C08(ctx):
    rate = 3 if ctx.quick else 1
    recs = exec_cases(ctx, "helpers", ["helpers", "cfg"], rate, timeout=1500)
    recs += exec_cases(ctx, "flow", ["flow"], 1, timeout=1500)
    recs += exec_cases(ctx, "pairs", ["pairs"], 3 if ctx.quick else 1, timeout=1500)
    ctx.nontrivial = len({json.dumps(r["case"]["id"]) for r in recs})
    replay_exec(ctx, "helpers", recs, ["interp", "jit", "cl"])
    # direction A: helper events (id, arguments, returned value) of random programs
    trace_interp(ctx, "structured", 200 if ctx.quick else 5000, mode="structured")
    repo_test_traces(ctx, doc=not ctx.quick)
    ctx.extra["unregistered_id_cases"] = sum(1 for r in recs if r["exp"]["class"] == "nohelper")
    ctx.extra["helper_calls_expected"] = sum(len(r["exp"]["hlog"]) for r in recs)


def run_C09(ctx):
    rate = 4 if ctx.quick else 1
    recs = exec_cases(ctx, "ctx", ["ctx"], rate, timeout=1500)
    ctx.nontrivial = len({json.dumps(r["case"]["id"]) for r in recs})
    replay_exec(ctx, "ctx", recs, ["interp", "jit", "cl"])


def replay_verdicts(ctx, tag, recs, keep=None):
    if not recs:
        raise ToolError(f"no verdict records for {tag}")
    path = os.path.join(ctx.workdir, f"{tag}.verdicts.ndjson")
    with open(path, "w") as f:
        for r in recs:
            f.write(json.dumps(r) + "\n")
    rep_path = os.path.join(ctx.workdir, f"{tag}.report.json")
    rv(["verdicts", "--cases", path, "--report", rep_path], timeout=3000)
    rep = json.load(open(rep_path))
    ctx.traces += rep["pass"]
    ctx.evaluations += rep["records"]
    for s_ in rep["samples"]:
        ctx.sample(s_)
    for f in rep["failures"]:
        if keep is None or keep(f):
            ctx.violation(f["reason"], {"kind": "verdict", "record": f["record"], "observed": f["observed"]})
    return rep


def run_C06(ctx):
    rate = 16 if ctx.quick else 1
    r = run_tlc(f"{ctx.prop}-verdict", "MC_Verdict", {"Fams": {1, 2, 3, 4, 5, 6, 7}, "Seed": ctx.seed, "Rate": rate},
                invariants=["Inv"], workers=10, timeout=1500)
    if r.violation:
        ctx.violation("MC_Verdict: a verdict is not explained by the named rules", {"kind": "tlc", "output": r.violation[:3000]})
    ctx.add_tlc(f"MC_Verdict rate=1/{rate}", r)
    recs = r.replay
    # rule independence: every rule is the only one violated by some enumerated program
    lone = {}
    for x in recs:
        v = x["violated"]
        if len(v) == 1:
            lone[v[0]] = lone.get(v[0], 0) + 1
    ctx.extra["programs_violating_exactly_one_rule"] = lone
    missing = [n for n in ("last", "opcode", "regs", "lddw", "jump", "call", "endian", "xadd", "len") if n not in lone]
    if missing and not ctx.quick:
        # (the quick tier samples register bytes; the full enumeration must witness every rule alone)
        raise ToolError(f"vacuity: no enumerated program violates only rule(s) {missing}")
    ctx.extra["rules_without_lone_witness_in_this_sample"] = missing
    ctx.extra["accepted"] = sum(1 for x in recs if x["accept"])
    ctx.extra["refused"] = sum(1 for x in recs if not x["accept"])
    ctx.nontrivial = len({json.dumps(x["id"]) for x in recs})
    replay_verdicts(ctx, "verdict", recs)
    # the small-program universe of MC_Safety, also a verdict corpus
    r2 = run_tlc(f"{ctx.prop}-safety", "MC_Safety", {"MaxLen": 3 if ctx.quick else 4, "Dev": set(), "Alphabet": "full", "EmitAll": True},
                 invariants=["Inv"], workers=10, timeout=1500)
    if r2.violation:
        ctx.violation("MC_Safety: a well-formed program gets stuck in the control-flow abstraction",
                      {"kind": "tlc", "output": r2.violation[:3000]})
    ctx.add_tlc("MC_Safety (verdict corpus)", r2)
    replay_verdicts(ctx, "universe", r2.replay)
    # direction A: the verdicts given while /repo's own tests ran
    repo_test_verdicts(ctx, doc=not ctx.quick)


def tlaps_safety(ctx):
    """Unbounded part of C05: TLAPS proves that the control-flow machine over an abstract program of
    ANY length never gets stuck when the program is well formed (spec/SafetyAbs.tla, inductive
    invariant); TLC checks on the MC_Safety universe that MachineCF over Verifier!WellFormed programs
    refines it (MC_SafetyAbs).  Both with a negative control."""
    import shutil, re
    spec_src = open(os.path.join(core.SPEC, "SafetyAbs.tla")).read()
    strong = '(Tgt[p] \\in 0..(N-1) /\\ Kind[Tgt[p]] # "second")'
    assert strong in spec_src
    for name, text in (("proof", spec_src), ("negctl", spec_src.replace(strong, "(Tgt[p] \\in 0..(N-1))"))):
        if name == "negctl" and ctx.quick:
            continue        # (failing obligations run into the provers' time-outs: thorough tier only)
        wd = os.path.join(ctx.workdir, "tlaps-" + name)
        shutil.rmtree(wd, ignore_errors=True)
        os.makedirs(wd)
        open(os.path.join(wd, "SafetyAbs.tla"), "w").write(text)
        p = core.sh(["tlapm", "--threads", "6", "--cleanfp", "SafetyAbs.tla"], cwd=wd, timeout=1500, check=False)
        m = re.search(r"All (\d+) obligations proved", p.stdout)
        if name == "proof":
            if m:
                ctx.extra["tlaps"] = {"module": "SafetyAbs.tla", "theorem": "Spec => []NoStuck for a well-formed abstract program of any length (inductive invariant Inv)",
                                      "obligations_proved": int(m.group(1))}
            else:
                f = re.search(r"(\d+)/(\d+) obligations failed", p.stdout)
                if not f:
                    raise ToolError("tlapm failed on SafetyAbs.tla:\n" + p.stdout[-2000:])
                ctx.violation(f"TLAPS: {f.group(1)} of {f.group(2)} proof obligations of SafetyAbs.tla fail: the design-level argument that a well-formed program never gets stuck no longer holds",
                              {"kind": "tlaps", "output": p.stdout[-3000:]})
        elif m:
            raise ToolError("negative control failed: SafetyAbs.tla is still proved when jumps may land on second slots")
        shutil.rmtree(wd, ignore_errors=True)
    if "tlaps" in ctx.extra and not ctx.quick:
        ctx.extra["tlaps"]["negative_control"] = "with the rule 'a jump or call never lands on a second slot' removed, 3 obligations fail"
    # the abstraction is faithful on the universe TLC can enumerate
    maxlen = 3 if ctx.quick else 4
    r = run_tlc(f"{ctx.prop}-safetyabs", "MC_SafetyAbs", {"MaxLen": maxlen, "Dev": set(), "Alphabet": "full", "EmitAll": False},
                spec="SpecWF", invariants=["Safe"], properties=["Refines"], workers=8, timeout=1500)
    if r.violation:
        ctx.violation("MachineCF over a Verifier!WellFormed program does not refine SafetyAbs (the unbounded proof does not cover the specification's machine)",
                      {"kind": "tlc", "output": r.violation[:3000]})
    ctx.add_tlc(f"MC_SafetyAbs MaxLen={maxlen} (MachineCF refines SafetyAbs)", r)
    rn = run_tlc(f"{ctx.prop}-safetyabs-neg", "MC_SafetyAbs", {"MaxLen": 2, "Dev": {"last_any_jmp"}, "Alphabet": "full", "EmitAll": False},
                 spec="SpecWF", properties=["Refines"], workers=4, timeout=600, expect_violation=True)
    if not rn.violation:
        raise ToolError("negative control failed: with the pinned commit's last-instruction rule MachineCF still refines SafetyAbs")


def run_C05(ctx):
    # design level: every program over the alphabet, all inputs (control-flow abstraction)
    maxlen = 3 if ctx.quick else 4
    r = run_tlc(f"{ctx.prop}-safety", "MC_Safety", {"MaxLen": maxlen, "Dev": set(), "Alphabet": "full", "EmitAll": True},
                invariants=["Inv"], workers=10, timeout=1500)
    if r.violation:
        ctx.violation("MC_Safety: a well-formed program gets stuck (pc outside / second slot / unsupported opcode / register index)",
                      {"kind": "tlc", "output": r.violation[:3000]})
    ctx.add_tlc(f"MC_Safety MaxLen={maxlen} full alphabet", r)
    ctx.extra["universe_programs"] = len(r.replay)
    ctx.extra["universe_accepted"] = sum(1 for x in r.replay if x["accept"])
    ctx.nontrivial = ctx.extra["universe_accepted"]
    if not ctx.quick:
        r5 = run_tlc(f"{ctx.prop}-safety5", "MC_Safety", {"MaxLen": 5, "Dev": set(), "Alphabet": "core", "EmitAll": False},
                     invariants=["Inv"], workers=12, timeout=2400)
        if r5.violation:
            ctx.violation("MC_Safety (length 5, core alphabet): a well-formed program gets stuck", {"kind": "tlc", "output": r5.violation[:3000]})
        ctx.add_tlc("MC_Safety MaxLen=5 core alphabet", r5)
    # negative control: with the pinned commit's acceptance rule the same model must fail
    rn = run_tlc(f"{ctx.prop}-safety-neg", "MC_Safety", {"MaxLen": 2, "Dev": {"last_any_jmp", "lddw_r10", "call_any_slot"},
                 "Alphabet": "full", "EmitAll": False}, invariants=["Inv"], workers=4, timeout=600, expect_violation=True)
    if not rn.violation:
        raise ToolError("negative control failed: MC_Safety accepts the weakened acceptance rule")
    ctx.extra["negative_control"] = "MC_Safety with the pinned commit's acceptance rule (last_any_jmp, lddw_r10, call_any_slot) yields a counterexample, as it must"
    # the abstraction is sound: Machine refines MachineCF on the concrete case families
    consts = dict(BASE_CONSTS)
    consts.update({"Seed": ctx.seed, "Rate": 16 if ctx.quick else 4, "Families": {"calls", "helpers", "jmp", "bounds", "mem", "far"},
                   "KnownDevs": set(), "Deep": False})
    rr = run_tlc(f"{ctx.prop}-refine", "MC_Exec", consts, invariants=["Inv"], properties=["CFRefinement"], workers=10, timeout=1500)
    if rr.violation:
        ctx.violation("Machine does not refine MachineCF: the control-flow abstraction is unsound", {"kind": "tlc", "output": rr.violation[:3000]})
    ctx.add_tlc("MC_Exec with PROPERTY CFRefinement", rr)
    # binding: every program of the universe through the real verifier and, if accepted, the real interpreter
    replay_verdicts(ctx, "universe", r.replay)
    # ... and the displacement sweeps of MC_Verdict (jumps and local calls at every boundary of the
    # 16- and 32-bit fields, near and far): whatever the REAL verifier accepts is run; a wrong verdict
    # alone is C06's business, a crash after acceptance is C05's
    rv_ = run_tlc(f"{ctx.prop}-disp", "MC_Verdict", {"Fams": {2, 5, 7}, "Seed": ctx.seed, "Rate": 4 if ctx.quick else 1},
                  invariants=["Inv"], workers=6, timeout=1500)
    ctx.add_tlc("MC_Verdict families 2, 5, 7 (displacement sweeps)", rv_)
    replay_verdicts(ctx, "disp", rv_.replay, keep=lambda f: "crashed the interpreter" in f["reason"] or "panic" in f["reason"])
    tlaps_safety(ctx)
    extra_C05(ctx)


def crash_only(f):
    r = f["reason"]
    return "panic" in r or "child signal" in r or "child timeout" in r or "child exit" in r


def extra_C05(ctx):
    # the case families of the other properties, replayed for crash-freedom only (long programs,
    # extreme operands, deep and backward calls): a wrong value is C01's business, a panic is C05's
    recs = exec_cases(ctx, "crash", ["alu", "jmp", "far", "farcall", "calls", "mem", "bounds", "helpers", "flow", "pairs"], 48 if ctx.quick else 4, timeout=1500)
    replay_exec(ctx, "crash", recs, ["interp"], claim=crash_only)
    # direction A: arbitrary accepted programs under an instruction budget, every step validated
    trace_interp(ctx, "arbitrary", 400 if ctx.quick else 20000, mode="arbitrary")


KINDS = ["raw", "nodata", "mbuff", "fixed"]
VMAPI_FULL = {"Helpers": {"a", "b"}, "Calcs": {"k64", "byprog"}}


def api_trace(ctx, kind, n, length, seed, tag, script=None):
    import re
    out = os.path.join(ctx.workdir, f"{tag}.{kind}.ndjson")
    rv(["record-api", "--seed", str(seed), "--n", str(n), "--len", str(length), "--kind", kind, "--out", out]
       + (["--script", script] if script else []), timeout=1800)
    summ = json.load(open(out + ".summary.json"))
    for c in summ["crashed"]:
        ctx.violation(f"API history crashed the process ({c['how']}) on VM kind {kind}", {"kind": "api", "job": c["job"]})
    lines = open(out).read().splitlines()
    index = summ["index"]
    validated = 0
    attempt = 0
    while lines and attempt < 6:
        attempt += 1
        cur = os.path.join(ctx.workdir, f"{tag}.{kind}.try{attempt}.ndjson")
        open(cur, "w").write("\n".join(lines) + "\n")
        r = run_tlc(f"{ctx.prop}-{tag}-{kind}-{attempt}", "TraceApi", dict(VMAPI_FULL, Kind=kind), spec="TraceSpec", invariants=["TraceInv"],
                    postcondition="TraceAccepted", workers=1, timeout=900, env={"TRACE": cur}, expect_violation=True)
        ctx.states += r.distinct
        ctx.transitions += r.generated
        m = re.search(r'<<"TRACE-ACCEPTED", (\d+)>>', r.out)
        if m:
            validated += int(m.group(1))
            break
        m = re.search(r'<<"TRACE-REJECTED", (\d+), (\d+)>>', r.out)
        if not m:
            raise ToolError(f"TraceApi {kind} failed:\n" + r.out[-2000:])
        pos = int(m.group(1))
        starts = [i for i, ln in enumerate(lines) if '"e":"new"' in ln]
        si = max([i for i in starts if i < pos] or [0])
        nxt = min([i for i in starts if i > si] or [len(lines)])
        hist = [json.loads(x) for x in lines[si:nxt]]
        ctx.violation(f"[{kind}] API history is not a behaviour of VmApi.tla at call {pos - si}: {lines[min(pos - 1, len(lines) - 1)][:200]}",
                      {"kind": "api-history", "vm_kind": kind, "history": hist, "rejected_at": pos - si})
        validated += si
        lines = lines[:si] + lines[nxt:]
    ctx.traces += summ["histories"] - len([v for v in ctx.violations if v["replay"].get("vm_kind") == kind])
    ctx.evaluations += summ["histories"]
    ctx.extra.setdefault("api_events_validated", 0)
    ctx.extra["api_events_validated"] += validated
    if index:
        first = lines[:6]
        ctx.sample({"kind": kind, "history_prefix": [json.loads(x) for x in first]})


def run_C10(ctx):
    from concurrent.futures import ThreadPoolExecutor
    # design level: the complete state graph of the abstract VM, per kind
    for kind in KINDS:
        # (VIEW view hides the observation variable; InvStep states the invariants on every transition)
        r = run_tlc(f"{ctx.prop}-graph-{kind}", "MC_VmApi", dict(VMAPI_FULL, Kind=kind), invariants=["Inv"], properties=["FailedCallIsNoOp", "InvStep"],
                    view="view", workers=10, timeout=900)
        if r.violation:
            ctx.violation(f"VmApi design invariant violated (kind {kind})", {"kind": "tlc", "output": r.violation[:3000]})
        ctx.add_tlc(f"MC_VmApi Kind={kind} (complete graph)", r)
    ctx.extra["exhaustive_over_abstract_state"] = True
    # direction B: a transition cover of the state graph, walked on real VM objects
    import tour
    ctx.extra["transition_cover"] = {}

    def cover(kind):
        # quick tier: the cover is planned over the graph with one helper function and one calculator
        # (the second of each is exercised by the random histories); thorough tier: the full graph
        sets = {"Helpers": {"a"}, "Calcs": {"k64"}} if ctx.quick else VMAPI_FULL
        r = run_tlc(f"{ctx.prop}-edges-{kind}", "MC_VmApiTour", dict(sets, Kind=kind), invariants=["Inv"], view="view",
                    extra_cfg="ACTION_CONSTRAINT Edges", workers=2, timeout=900)
        edges = tour.parse_edges(r.out)
        hist, total, covered = tour.plan(edges, kind)
        for first in ("P3", "PX", "PY"):          # refused by the default verifier: no VM object comes to exist
            hist.append({"kind": kind, "first": first, "calls": []})
        hist += tour.memo_histories(kind)           # outcomes that depend on what the same object accepted before
        path = os.path.join(ctx.workdir, f"tour.{kind}.script.ndjson")
        open(path, "w").write("\n".join(json.dumps(h) for h in hist) + "\n")
        ctx.extra["transition_cover"][kind] = {"abstract_states": r.distinct, "transitions": total, "planned": covered,
                                               "histories": len(hist), "calls": sum(len(h["calls"]) for h in hist)}
        if covered != total or total == 0:
            raise ToolError(f"transition cover of VmApi[{kind}] incomplete: {covered}/{total}")
        api_trace(ctx, kind, 0, 0, 0, "tour", script=path)

    with ThreadPoolExecutor(max_workers=4) as ex:
        list(ex.map(cover, KINDS))
    # negative control (the binding): one observed result changed -> rejected at exactly that call
    import re
    lines = open(os.path.join(ctx.workdir, "tour.nodata.ndjson")).read().splitlines()[:400]
    k = next(i for i, ln in enumerate(lines) if '"op":"exec"' in ln and '"res":"1"' in ln)
    lines[k] = lines[k].replace('"res":"1"', '"res":"2"')
    bad = os.path.join(ctx.workdir, "negctl.nodata.ndjson")
    open(bad, "w").write("\n".join(lines) + "\n")
    r = run_tlc(f"{ctx.prop}-negctl", "TraceApi", dict(VMAPI_FULL, Kind="nodata"), spec="TraceSpec", invariants=["TraceInv"],
                postcondition="TraceAccepted", workers=1, timeout=300, env={"TRACE": bad}, expect_violation=True)
    m = re.search(r'<<"TRACE-REJECTED", (\d+), (\d+)>>', r.out)
    if not m or int(m.group(1)) != k + 1:
        raise ToolError(f"negative control failed: corrupted call {k + 1} of an API history was not rejected there")
    ctx.extra["negative_control"] = "an API history with one changed execution result is rejected by TraceApi at exactly that call"
    n = 250 if ctx.quick else 6000
    with ThreadPoolExecutor(max_workers=4) as ex:
        list(ex.map(lambda k: api_trace(ctx, k, n, 30, ctx.seed * 7 + KINDS.index(k), "hist"), KINDS))
    ctx.nontrivial = ctx.evaluations


def run_C12_families(ctx):
    # long programs (far branches / far calls / div-by-zero paths beyond index 65535) and the
    # control-flow shapes of family cfg: compilation must not panic on them either
    recs = exec_cases(ctx, "shapes", ["far", "farcall", "cfg", "calls"], 2 if ctx.quick else 1, timeout=1500)
    # loops whose back edge spans every code distance around the short/long jump encodings, joins,
    # dead code, and every ordered pair of instruction kinds
    recs += exec_cases(ctx, "flow", ["flow"], 1, timeout=1500)
    recs += exec_cases(ctx, "pairs", ["pairs"], 3 if ctx.quick else 1, timeout=1500)
    replay_exec(ctx, "shapes", recs, ["jit", "cl"], claim=crash_only)


def run_C12(ctx):
    import re
    # 1. the MC_Safety universe: every accepted program, every engine / helper set / VM kind
    maxlen = 3 if ctx.quick else 4
    r = run_tlc(f"{ctx.prop}-safety", "MC_Safety", {"MaxLen": maxlen, "Dev": set(), "Alphabet": "full", "EmitAll": True},
                invariants=["Inv"], workers=10, timeout=1500)
    ctx.add_tlc(f"MC_Safety MaxLen={maxlen} (programs + specified compile outcomes)", r)
    recs = r.replay      # all of them: the harness compiles whatever the REAL verifier accepts
    path = os.path.join(ctx.workdir, "universe.ndjson")
    open(path, "w").write("\n".join(json.dumps(x) for x in recs) + "\n")
    rep_path = os.path.join(ctx.workdir, "universe.report.json")
    rv(["compiles", "--cases", path, "--report", rep_path], timeout=3000)
    rep = json.load(open(rep_path))
    ctx.evaluations += rep["compilations"]
    ctx.traces += rep["accepted_by_real_verifier"] - rep["fail"]
    ctx.nontrivial = rep["accepted_by_real_verifier"]
    ctx.extra["universe"] = {"programs": rep["programs"], "accepted_by_real_verifier": rep["accepted_by_real_verifier"],
                             "accepted_by_specification": sum(1 for x in recs if x["accept"])}
    for s_ in rep["samples"]:
        ctx.sample(s_)
    for f in rep["failures"]:
        ctx.violation(f["reason"], {"kind": "compile", "record": f["record"], "observed": f["observed"]})
    # 2. random accepted programs, validated by TLC against Verifier!CompileOk (TraceCompile)
    n = 300 if ctx.quick else 8000
    out = os.path.join(ctx.workdir, "random.compile.ndjson")
    rv(["compiles", "--random", str(n), "--seed", str(ctx.seed), "--out", out], timeout=3000)
    summ = json.load(open(out + ".summary.json"))
    for c in summ["crashed"]:
        ctx.violation(f"compilation crashed the process ({c['how']})", {"kind": "compile-crash", "case": c["case"]})
    lines = open(out).read().splitlines()
    attempt = 0
    validated = 0
    while lines and attempt < 6:
        attempt += 1
        cur = os.path.join(ctx.workdir, f"random.compile.try{attempt}.ndjson")
        open(cur, "w").write("\n".join(lines) + "\n")
        rr = run_tlc(f"{ctx.prop}-tracecompile-{attempt}", "TraceCompile", {}, spec="TraceSpec", invariants=["Mark"],
                     postcondition="TraceAccepted", workers=1, timeout=1500, env={"TRACE": cur}, expect_violation=True)
        ctx.states += rr.distinct
        ctx.transitions += rr.generated
        m = re.search(r'<<"TRACE-ACCEPTED", (\d+)>>', rr.out)
        if m:
            validated += int(m.group(1))
            break
        m = re.search(r'<<"TRACE-REJECTED", (\d+), (\d+)>>', rr.out)
        if not m:
            raise ToolError("TraceCompile failed:\n" + rr.out[-2000:])
        pos = int(m.group(1))
        ev = json.loads(lines[pos - 1])
        ctx.violation(f"compile event is not allowed by the contract: {ev['engine']} on {ev['vm']} with helpers {ev['helpers']} -> {ev['res']}/{ev['res2']} sizes {ev['sizes']}",
                      {"kind": "compile-event", "event": ev})
        validated += pos - 1
        lines = lines[:pos - 1] + lines[pos:]
    ctx.traces += validated
    ctx.evaluations += summ["events"]
    ctx.extra["random_programs"] = summ["programs"]
    ctx.extra["compile_events_validated"] = validated
    run_C12_families(ctx)
    # 3. size ladder, incl. every size around the first page boundary of the code buffer
    sizes = [1, 2, 1000, 65535, 65536, 999999] + (list(range(1338, 1372)) if not ctx.quick else list(range(1342, 1352)))
    lad = os.path.join(ctx.workdir, "ladder.json")
    rv(["compiles", "--ladder", ",".join(map(str, sizes)), "--engines", "jit,cl", "--report", lad, "--timeout-ms", "300000"], timeout=3000)
    rows = json.load(open(lad))["rows"]
    ctx.evaluations += 2 * len(rows)
    ctx.extra["ladder_sizes"] = sizes
    ctx.extra["ladder_max_ms"] = max([x.get("ms", 0) for x in rows] or [0])
    for x in rows:
        ok = x.get("res") == "ok" and x.get("res2") == "ok"
        if ok and x["engine"] == "jit":
            c, e, b = x["sizes"]
            ok = c == e and e <= b
        if ok:
            ctx.traces += 1
        else:
            ctx.violation(f"size ladder: {x['engine']} on {x['vm']} with {x['n']} instructions: {x.get('res')} sizes {x.get('sizes')}",
                          {"kind": "compile-ladder", "row": x})


def text_cases(ctx, fams, rate, tag):
    consts = dict(BASE_CONSTS)
    consts.update({"Fams": set(fams), "Seed": ctx.seed, "Rate": rate})
    r = run_tlc(f"{ctx.prop}-{tag}", "MC_Text", consts, invariants=["Inv"], workers=10, timeout=2400)
    if r.violation:
        ctx.violation("MC_Text: specification-level law violated (round trip of Disasm o Asm, or decode of assembled bytes): " + r.violation[:300],
                      {"kind": "tlc", "model": "MC_Text", "output": r.violation[:4000]})
    ctx.add_tlc(f"MC_Text[{','.join(sorted(fams))}] rate=1/{rate}", r)
    return r.replay


def replay_texts(ctx, tag, recs, keep=None):
    if not recs:
        raise ToolError(f"no text records for {tag}")
    path = os.path.join(ctx.workdir, f"{tag}.texts.ndjson")
    open(path, "w").write("\n".join(json.dumps(x) for x in recs) + "\n")
    rep_path = os.path.join(ctx.workdir, f"{tag}.report.json")
    rv(["texts", "--cases", path, "--report", rep_path], timeout=3000)
    rep = json.load(open(rep_path))
    ctx.evaluations += rep["records"]
    nviol = 0
    for f in rep["failures"]:
        reason = f["reason"]
        if keep and not keep(f):
            ctx.skip("failure-belongs-to-another-property", 1)
            continue
        nviol += 1
        ctx.violation(reason, {"kind": "text", "record": f["record"], "observed": f["observed"]})
    ctx.traces += rep["records"] - nviol
    for s_ in rep["samples"]:
        ctx.sample(s_)
    return rep


def run_C13(ctx):
    recs = text_cases(ctx, ["asm"], 24 if ctx.quick else 1, "asm")
    ctx.nontrivial = len({json.dumps(x["prog"]) for x in recs})
    ctx.extra["denote_bytes"] = sum(1 for x in recs if x["exp"]["ok"])
    ctx.extra["denote_nothing"] = sum(1 for x in recs if not x["exp"]["ok"])
    # C13 is about the emitted encoding / refusal; a panic is C14's business but is also not a value
    replay_texts(ctx, "asm", recs)


def run_C14(ctx):
    recs = [x for x in text_cases(ctx, ["asm"], 24 if ctx.quick else 1, "asm") if x["fam"] in ("a5", "a2", "a3", "a4", "a6")]
    replay_texts(ctx, "literals", recs, keep=lambda f: "panicked" in f["reason"] or "killed" in f["reason"] or "no answer" in f["reason"])
    n = 20000 if ctx.quick else 2000000
    rep_path = os.path.join(ctx.workdir, "fuzz.report.json")
    rv(["fuzz-asm", "--seed", str(ctx.seed), "--n", str(n), "--report", rep_path], timeout=3000)
    rep = json.load(open(rep_path))
    ctx.evaluations += rep["inputs"]
    ctx.nontrivial = rep["distinct"] + len(recs)
    ctx.extra["fuzz"] = {k: rep[k] for k in ("inputs", "distinct", "ok", "err")}
    for s_ in rep["samples"]:
        ctx.sample({"fuzz_input": s_})
    for f in rep["failures"]:
        ctx.violation(f"assemble({json.dumps(f['input'])[:120]}): {f['reason']}", {"kind": "fuzz", "input": f["input"]})


def run_C15(ctx):
    recs = text_cases(ctx, ["disasm"], 48 if ctx.quick else 2, "disasm")
    ctx.nontrivial = len({json.dumps(x["bytes"]) for x in recs})
    replay_texts(ctx, "disasm", recs, keep=lambda f: "round trip" not in f["reason"] or "entry" in f["reason"] or "panicked" in f["reason"])


def run_C16(ctx):
    recs = text_cases(ctx, ["disasm"], 48 if ctx.quick else 2, "disasm")
    ctx.nontrivial = len({json.dumps(x["bytes"]) for x in recs})
    ctx.extra["expressible_programs"] = sum(1 for x in recs if x["exp"]["expressible"])
    ctx.extra["reassembled_ok"] = sum(1 for x in recs if x["exp"]["rt"]["ok"])
    replay_texts(ctx, "roundtrip", recs, keep=lambda f: "round trip" in f["reason"] or "panicked" in f["reason"])


def tlaps_isa(ctx):
    """Unbounded: TLAPS proves Decode(Encode(i)) = i of Isa.tla for ALL well-typed instructions
    (spec/IsaProofs.tla, 128 obligations, SMT back end).  Negative control: with one constant of the
    decoder changed the proof must fail."""
    import shutil, re
    for name, mutate in (("proof", False), ("negctl", True)):
        wd = os.path.join(ctx.workdir, "tlaps-" + name)
        shutil.rmtree(wd, ignore_errors=True)
        os.makedirs(wd)
        isa = open(os.path.join(core.SPEC, "Isa.tla")).read()
        if mutate:
            assert "THEN b3 - 256 ELSE b3" in isa
            isa = isa.replace("THEN b3 - 256 ELSE b3", "THEN b3 - 255 ELSE b3")
        open(os.path.join(wd, "Isa.tla"), "w").write(isa)
        shutil.copy(os.path.join(core.SPEC, "IsaProofs.tla"), wd)
        p = core.sh(["tlapm", "--threads", "6", "--cleanfp", "IsaProofs.tla"], cwd=wd, timeout=1500, check=False)
        m = re.search(r"All (\d+) obligations proved", p.stdout)
        if not mutate:
            if not m:
                f = re.search(r"(\d+)/(\d+) obligations failed", p.stdout)
                if f:
                    ctx.violation(f"TLAPS: {f.group(1)} of {f.group(2)} proof obligations of IsaProofs.tla (Decode o Encode = identity) fail: the specification's encoding is not injective, or the proof no longer fits it",
                                  {"kind": "tlaps", "output": p.stdout[-3000:]})
                else:
                    raise ToolError("tlapm failed on IsaProofs.tla:\n" + p.stdout[-2000:])
            else:
                ctx.extra["tlaps"] = {"module": "IsaProofs.tla", "theorem": "\\A i \\in Insn32 : Decode(Encode(i)) = i (all opcodes, register nibbles, 65,536 offsets, 2^32 immediates)",
                                      "obligations_proved": int(m.group(1))}
        elif m:
            raise ToolError("negative control failed: IsaProofs.tla is still proved with a wrong decoder constant")
        shutil.rmtree(wd, ignore_errors=True)
    ctx.extra["tlaps"]["negative_control"] = "with DecodeOff's 256 replaced by 255 the proof fails, as it must"


def run_C17(ctx):
    tlaps_isa(ctx)
    consts = dict(BASE_CONSTS)
    consts.update({"Fams": {"enc", "builder"}, "Seed": ctx.seed, "Rate": 8 if ctx.quick else 1})
    r = run_tlc(f"{ctx.prop}-isa", "MC_Isa", consts, invariants=["Inv"], workers=10, timeout=2400)
    if r.violation:
        ctx.violation("MC_Isa: Encode / Decode are not inverse in the specification, or Asm disagrees with Encode: " + r.violation[:300],
                      {"kind": "tlc", "model": "MC_Isa", "output": r.violation[:4000]})
    ctx.add_tlc("MC_Isa", r)
    recs = r.replay
    ctx.nontrivial = len({json.dumps(x["bytes"]) + json.dumps(x.get("ctor")) for x in recs})
    ctx.extra["slots"] = sum(1 for x in recs if x["kind"] == "enc")
    ctx.extra["builder_cases"] = sum(1 for x in recs if x["kind"] == "builder")
    path = os.path.join(ctx.workdir, "isa.ndjson")
    open(path, "w").write("\n".join(json.dumps(x) for x in recs) + "\n")
    rep_path = os.path.join(ctx.workdir, "isa.report.json")
    rv(["encs", "--cases", path, "--report", rep_path], timeout=3000)
    rep = json.load(open(rep_path))
    ctx.evaluations += rep["records"]
    ctx.traces += rep["pass"]
    for s_ in rep["samples"]:
        ctx.sample(s_)
    for f in rep["failures"]:
        ctx.violation(f["reason"], {"kind": "enc", "record": f["record"]})
    if not ctx.quick:
        core.build_harness(release=True)
        sw = os.path.join(ctx.workdir, "sweep.json")
        rv(["encs", "--sweep-imm", "--report", sw], release=True, timeout=3000)
        srep = json.load(open(sw))
        ctx.evaluations += srep["immediates"]
        ctx.extra["all_2^32_immediates_swept"] = srep["immediates"]
        ctx.notes.append("the 2^32 sweep is auxiliary (plain Rust loop): it extends the lane law, which the specification checks per lane, to every immediate")
        for b in srep["bad"]:
            ctx.violation(b, {"kind": "enc-sweep", "what": b})


def run_C19(ctx):
    import re
    consts = dict(BASE_CONSTS)
    consts.update({"RunMode": "cases", "Seed": ctx.seed, "Rate": 4 if ctx.quick else 1})
    r = run_tlc(f"{ctx.prop}-cases", "MC_Helpers", consts, invariants=["Inv"], postcondition="TraceAccepted", workers=10, timeout=2400)
    if r.violation:
        ctx.violation("MC_Helpers: a law of the specified helpers fails (memfrob involution / strcmp zero iff equal)", {"kind": "tlc", "output": r.violation[:3000]})
    ctx.add_tlc("MC_Helpers (cases)", r)
    recs = r.replay
    ctx.nontrivial = len({json.dumps(x) for x in recs})
    path = os.path.join(ctx.workdir, "helpers.ndjson")
    open(path, "w").write("\n".join(json.dumps(x) for x in recs) + "\n")
    rep_path = os.path.join(ctx.workdir, "helpers.report.json")
    rv(["helpers", "--cases", path, "--report", rep_path], timeout=3000)
    rep = json.load(open(rep_path))
    ctx.evaluations += rep["records"]
    ctx.traces += rep["pass"]
    for s_ in rep["samples"]:
        ctx.sample(s_)
    for f in rep["failures"]:
        ctx.violation(f["reason"], {"kind": "helper", "record": f["record"]})
    # recorded sqrti / rand results validated by the specification's predicates
    obs = os.path.join(ctx.workdir, "observed.ndjson")
    rv(["helpers", "--observe", "--seed", str(ctx.seed), "--n", str(300 if ctx.quick else 20000), "--out", obs], timeout=3000)
    lines = open(obs).read().splitlines()
    attempt = 0
    validated = 0
    while lines and attempt < 6:
        attempt += 1
        cur = os.path.join(ctx.workdir, f"observed.try{attempt}.ndjson")
        open(cur, "w").write("\n".join(lines) + "\n")
        c2 = dict(consts)
        c2["RunMode"] = "trace"
        rr = run_tlc(f"{ctx.prop}-trace-{attempt}", "MC_Helpers", c2, invariants=["Inv"], postcondition="TraceAccepted", workers=1,
                     timeout=2400, env={"TRACE": cur}, expect_violation=True)
        ctx.states += rr.distinct
        ctx.transitions += rr.generated
        m = re.search(r'<<"TRACE-ACCEPTED", (\d+)>>', rr.out)
        if m:
            validated += int(m.group(1))
            break
        m = re.search(r'<<"TRACE-REJECTED", (\d+), (\d+)>>', rr.out)
        if not m:
            raise ToolError("MC_Helpers trace mode failed:\n" + rr.out[-2000:])
        pos = int(m.group(1))
        ev = json.loads(lines[pos - 1])
        ctx.violation(f"{ev['f']} result not admitted by Helpers.tla: args {ev['args']} -> {ev['ret']} (returned: {ev['ok']})", {"kind": "helper-obs", "event": ev})
        validated += pos - 1
        lines = lines[:pos - 1] + lines[pos:]
    ctx.traces += validated
    ctx.evaluations += validated
    ctx.extra["sqrti_rand_results_validated"] = validated


def apalache_xadd(ctx):
    """Beyond TLC's bounds: the inductive invariant of XaddInd.tla (any number of adds, any addends,
    64- and 32-bit words, 4 processes) discharged by Apalache: Init => IndInv and IndInv /\ Next => IndInv'."""
    import shutil
    wd = os.path.join(ctx.workdir, "apalache")
    shutil.rmtree(wd, ignore_errors=True)
    os.makedirs(wd)
    spec = os.path.join(core.SPEC, "XaddInd.tla")
    steps = [("base", ["--init=Init", "--length=0"]), ("step", ["--init=IndInit", "--length=1"])]
    done = 0
    for name, opts in steps:
        p = core.sh(["apalache-mc", "check", "--cinit=ConstInit", "--inv=IndInv", f"--out-dir={wd}/out"] + opts + [spec],
                    cwd=wd, timeout=900, check=False, env={"TMPDIR": wd, "JVM_ARGS": f"-Djava.io.tmpdir={wd}"})
        if "EXITCODE: OK" in p.stdout:
            done += 1
        elif "EXITCODE: ERROR (12)" in p.stdout:
            ctx.violation(f"XaddInd: the inductive invariant fails ({name}): the atomic-add design loses an update or touches a neighbour",
                          {"kind": "apalache", "step": name, "output": p.stdout[-2000:]})
        else:
            raise ToolError(f"apalache-mc ({name}) failed:\n" + p.stdout[-2000:])
    ctx.extra["inductive_invariant"] = {"tool": "apalache-mc 0.58", "module": "XaddInd.tla", "obligations": len(steps), "discharged": done,
                                        "scope": "NP = 4 processes, any K, any addends, M in {2^32, 2^64}"}
    shutil.rmtree(wd, ignore_errors=True)


def run_C18(ctx):
    import re
    # design: all interleavings
    for (n, k) in ([(2, 2), (3, 2)] if ctx.quick else [(2, 2), (3, 2), (3, 3), (4, 2)]):
        r = run_tlc(f"{ctx.prop}-atomic-{n}-{k}", "Xadd", {"N": n, "K": k, "Bits": 3, "Algo": "atomic"}, invariants=["Inv"],
                    properties=["Termination"], workers=8, timeout=900)
        if r.violation:
            ctx.violation(f"Xadd (atomic) N={n} K={k}: lost update or neighbour touched in the design", {"kind": "tlc", "output": r.violation[:3000]})
        ctx.add_tlc(f"Xadd atomic N={n} K={k}", r)
    for algo in ("split", "wide"):
        r = run_tlc(f"{ctx.prop}-{algo}", "Xadd", {"N": 2, "K": 2, "Bits": 3, "Algo": algo}, invariants=["Inv"], workers=4,
                    timeout=600, expect_violation=True)
        if not r.violation:
            raise ToolError(f"negative control failed: Xadd with Algo={algo} satisfies the invariants")
    ctx.extra["negative_controls"] = "Algo=split loses an update, Algo=wide touches the neighbour: both rejected by TLC, as they must"
    apalache_xadd(ctx)
    # binding: concurrent stress on the real engines, finals validated by TLC
    out = os.path.join(ctx.workdir, "xadd.ndjson")
    nconf, count = (12, 200000) if ctx.quick else (200, 2000000)
    rv(["xadd", "--seed", str(ctx.seed), "--configs", str(nconf), "--count", str(count), "--out", out], timeout=3000)
    summ = json.load(open(out + ".summary.json"))
    for c in summ["crashed"]:
        ctx.violation(f"concurrent atomic-add run crashed ({c['how']})", {"kind": "xadd-crash", "config": c["config"]})
    lines = open(out).read().splitlines()
    attempt = 0
    validated = 0
    while lines and attempt < 8:
        attempt += 1
        cur = os.path.join(ctx.workdir, f"xadd.try{attempt}.ndjson")
        open(cur, "w").write("\n".join(lines) + "\n")
        rr = run_tlc(f"{ctx.prop}-trace-{attempt}", "TraceXadd", dict(BASE_CONSTS), spec="TraceSpec", invariants=["Mark"],
                     postcondition="TraceAccepted", workers=1, timeout=900, env={"TRACE": cur}, expect_violation=True)
        ctx.states += rr.distinct
        ctx.transitions += rr.generated
        m = re.search(r'<<"TRACE-ACCEPTED", (\d+)>>', rr.out)
        if m:
            validated += int(m.group(1))
            break
        m = re.search(r'<<"TRACE-REJECTED", (\d+), (\d+)>>', rr.out)
        if not m:
            raise ToolError("TraceXadd failed:\n" + rr.out[-2000:])
        pos = int(m.group(1))
        ev = json.loads(lines[pos - 1])
        ctx.violation(f"concurrent atomic adds ({ev['width']*8}-bit, engines {ev['engines']}, (base, source) registers {ev['regs']}, {ev['count']} adds each): final word {ev['final']} is not init + sum of addends, or other bytes changed, or an execution failed {ev['errors']}",
                      {"kind": "xadd", "event": {k: ev[k] for k in ("width", "init", "adds", "final", "ok", "errors", "engines", "count", "word_offset", "regs")}})
        validated += pos - 1
        lines = lines[:pos - 1] + lines[pos:]
    ctx.traces += validated
    ctx.evaluations += summ["configs"]
    ctx.extra["atomic_adds_executed"] = sum(len(json.loads(x)["engines"]) * json.loads(x)["count"] for x in open(out).read().splitlines())
    if open(out).read().strip():
        e0 = json.loads(open(out).readline())
        ctx.sample({k: e0[k] for k in ("width", "engines", "count", "init", "final")})
    # misaligned atomic adds: an interpreter error that leaves memory unchanged (bounds family, xadd only)
    recs = [x for x in exec_cases(ctx, "xaddalign", ["bounds"], 3 if ctx.quick else 1, timeout=1500) if x["case"]["id"][0] == "b" and x["case"]["id"][2] == 4]
    ctx.extra["misaligned_cases"] = sum(1 for x in recs if x["exp"]["class"] == "unaligned")
    replay_exec(ctx, "xaddalign", recs, ["interp", "jit", "cl"])
    ctx.nontrivial = summ["configs"] + len(recs)


def run_C20(ctx):
    import re
    core.build_harness(nostd=True)
    hexs = lambda b: "".join(f"{x:02x}" for x in b)
    corpus = []
    spec = []
    # assembler texts: token programs of MC_Text (with the specified result) + fuzz strings
    trecs = text_cases(ctx, ["asm", "disasm"], 96 if ctx.quick else 8, "text")
    asm_recs = [x for x in trecs if x["kind"] == "asm"]
    tmp_cases = os.path.join(ctx.workdir, "asm.cases.ndjson")
    open(tmp_cases, "w").write("\n".join(json.dumps(x) for x in asm_recs) + "\n")
    texts = os.path.join(ctx.workdir, "asm.texts.ndjson")
    rv(["render", "--cases", tmp_cases, "--fuzz", str(3000 if ctx.quick else 200000), "--seed", str(ctx.seed), "--out", texts])
    tl = [json.loads(x) for x in open(texts)]
    for k, t in enumerate(tl):
        corpus.append(t)
        if k < len(asm_recs):
            e = asm_recs[k]["exp"]
            spec.append("ok " + hexs(e["bytes"]) if e["ok"] else "err")
        else:
            spec.append("")
    for x in trecs:
        if x["kind"] == "disasm":
            corpus.append({"t": "disasm", "bytes": x["bytes"]})
            spec.append("")
    # verifier inputs
    r = run_tlc(f"{ctx.prop}-verdict", "MC_Verdict", {"Fams": {1, 2, 3, 4, 5, 6, 7}, "Seed": ctx.seed, "Rate": 64 if ctx.quick else 4},
                invariants=["Inv"], workers=10, timeout=1500)
    ctx.add_tlc("MC_Verdict (corpus)", r)
    for x in r.replay:
        corpus.append({"t": "verdict", "prog": x["prog"], "extra": x["extra"]})
        spec.append("accept" if x["accept"] else "reject")
    # programs and inputs on the interpreter and the JIT
    idevs = {f["key"] for f in core.load_known()["findings"] if "interpreter" in f["where"]}
    recs = exec_cases(ctx, "exec", ["alu", "jmp", "mem", "far"], 96 if ctx.quick else 8, timeout=1500, devs=idevs)
    # what each VM kind presents at entry (r1, packet pointers, packet loads): densely - this is where
    # the two builds' JIT set-up code differs (caller-supplied executable memory, flags per VM kind)
    recs += exec_cases(ctx, "exec-ctx", ["ctx"], 5 if ctx.quick else 1, timeout=1500, devs=idevs)
    key_of = lambda c: json.dumps([c["fam"], c["id"], c["vm"]])
    # cases on which a recorded interpreter finding changes the interpreter's answer: both builds
    # must still agree there, but the specification's answer is not demanded (that is C01's finding)
    deviating = {key_of(x["case"]) for x in recs if x["case"]["dev"]}
    # cases for which the specification admits several outcomes have no single specified answer
    from collections import Counter
    multi = Counter(key_of(x["case"]) for x in recs if not x["case"]["dev"])
    deviating |= {k for k, n in multi.items() if n > 1}
    seen = set()
    for x in recs:
        c, e = x["case"], x["exp"]
        key = key_of(c)
        if c["helpers"] or c["calc"] or c["dev"] or key in seen:
            continue
        if not e["defd"]:
            continue          # depends on raw addresses / undefined state: outside every claim
        seen.add(key)
        good = e["k"] == "ok" and e["defd"]
        out = f"ok {int.from_bytes(bytes(e['val']), 'little'):#x} pkt={hexs(e['pkt'])} mbuf={hexs(e['mbuf'])}" if good else ""
        corpus.append({"t": "run", "case": c})
        spec.append("" if key in deviating else out)
        if good:
            corpus.append({"t": "jit", "case": c})
            spec.append("" if multi[key] > 1 else out)
    # API histories (every sequence of up to 4 calls over set_program(P1|P2|P7|PX), jit_compile, exec,
    # exec_jit on the raw and the fixed-metadata VM; seeded longer ones) and compilation into one page
    # of caller-supplied memory around the size where the code stops fitting
    import itertools, random
    alphabet = [["set_program", "P1"], ["set_program", "P2"], ["set_program", "P7"], ["set_program", "PX"],
                ["jit_compile", ""], ["exec", ""], ["exec_jit", ""]]
    hists = [list(c) for n in range(1, 5) for c in itertools.product(alphabet, repeat=n)]
    rnd = random.Random(ctx.seed)
    hists += [[rnd.choice(alphabet) for _ in range(rnd.randint(5, 12))] for _ in range(200 if ctx.quick else 20000)]
    for kind in ("raw", "fixed"):
        for h in hists:
            corpus.append({"t": "hist", "kind": kind, "calls": h})
            spec.append("")
    for n in [1, 10, 100] + list(range(500, 1100, 10)) + [5000, 60000]:
        corpus.append({"t": "jit_small", "insns": n})
        spec.append("contract-ok")
    for k, rec in enumerate(corpus):
        rec["n"] = k + 1
    cpath = os.path.join(ctx.workdir, "corpus.ndjson")
    open(cpath, "w").write("\n".join(json.dumps(x) for x in corpus) + "\n")
    spath = os.path.join(ctx.workdir, "transcript.spec.ndjson")
    open(spath, "w").write("\n".join(json.dumps({"n": k + 1, "t": corpus[k]["t"], "out": o}) for k, o in enumerate(spec)) + "\n")
    a = os.path.join(ctx.workdir, "transcript.std.ndjson")
    b = os.path.join(ctx.workdir, "transcript.nostd.ndjson")
    rv(["transcript", "--corpus", cpath, "--out", a], timeout=3000)
    p = core.sh([os.path.join(ROOT, "harness_nostd", "target", "debug", "rv_nostd"), "transcript", "--corpus", cpath, "--out", b], cwd=ROOT, timeout=3000)
    ctx.evaluations += 2 * len(corpus)
    ctx.extra["corpus"] = {t: sum(1 for x in corpus if x["t"] == t) for t in ("asm", "disasm", "verdict", "run", "jit", "hist", "jit_small")}
    ctx.extra["lines_with_specified_answer"] = sum(1 for o in spec if o)
    la, lb, ls = (open(x).read().splitlines() for x in (a, b, spath))
    attempt = 0
    validated = 0
    while ls and attempt < 8:
        attempt += 1
        fa, fb, fs = (os.path.join(ctx.workdir, f"pair.{n}.try{attempt}.ndjson") for n in ("std", "nostd", "spec"))
        for fn, ll in ((fa, la), (fb, lb), (fs, ls)):
            open(fn, "w").write("\n".join(ll) + "\n")
        rr = run_tlc(f"{ctx.prop}-pair-{attempt}", "TracePair", {}, spec="TraceSpec", invariants=["Mark"], postcondition="TraceAccepted",
                     workers=1, timeout=1800, env={"TRACE_STD": fa, "TRACE_NOSTD": fb, "TRACE_SPEC": fs}, expect_violation=True)
        ctx.states += rr.distinct
        ctx.transitions += rr.generated
        m = re.search(r'<<"TRACE-ACCEPTED", (\d+)>>', rr.out)
        if m:
            validated += int(m.group(1))
            break
        m = re.search(r'<<"TRACE-REJECTED", (\d+), (\d+)>>', rr.out)
        if not m:
            raise ToolError("TracePair failed:\n" + rr.out[-2000:])
        pos = int(m.group(1))
        if len(la) != len(ls) or len(lb) != len(ls):
            raise ToolError(f"transcripts have different lengths: std {len(la)}, no_std {len(lb)}, corpus {len(ls)}")
        ea, eb, es = json.loads(la[pos - 1]), json.loads(lb[pos - 1]), json.loads(ls[pos - 1])
        rec = corpus[ea["n"] - 1]
        ctx.violation(f"{ea['t']} item {ea['n']}: std build answers `{ea['out'][:120]}`, no_std build `{eb['out'][:120]}`" + (f", specification `{es['out'][:120]}`" if es["out"] else ""),
                      {"kind": "pair", "record": rec, "std": ea["out"], "nostd": eb["out"], "spec": es["out"]})
        validated += pos - 1
        la, lb, ls = la[:pos - 1] + la[pos:], lb[:pos - 1] + lb[pos:], ls[:pos - 1] + ls[pos:]
    ctx.traces += validated
    ctx.nontrivial = len(corpus)
    if corpus:
        ctx.sample({"corpus_record": {k: corpus[0][k] for k in corpus[0] if k != "case"}, "std": json.loads(open(a).readline())["out"][:80]})


CHECKS = {
    "C20": {"level": "exploration", "run": run_C20, "assumptions": ASSUME_COMMON + ["the no_std build of rbpf is linked into an ordinary std binary (rv_nostd); JIT code runs from mmap'ed RWX memory passed to set_jit_exec_memory"],
            "rule": "corpus = rendered token programs of MC_Text + seeded fuzz strings (assembler), MC_Text byte programs (disassembler), MC_Verdict byte strings (verifier), MC_Exec cases of families alu/jmp/mem/ctx/far on all VM kinds (interpreter, and x86-64 JIT where the specification defines the result); both builds produce a transcript, TLC (TracePair) requires equality line by line and equality with the specification's own answer where it has one; non-trivial = corpus items; API histories (all sequences of up to 4 calls over set_program / jit_compile / exec / exec_jit on two VM kinds + seeded longer ones; the no_std build is handed fresh executable memory before every call that may need it) and compilation into one page of caller-supplied memory around the size where the code stops fitting"},
    "C18": {"level": "exploration", "run": run_C18, "assumptions": ASSUME_COMMON + ["atomicity of the hardware instructions is only stressed, not proved"],
            "rule": "design: Xadd.tla, all interleavings of N <= 3 (thorough 4) processes x K <= 2 (3) adds with wrapping addends and two neighbour words (NoLostUpdate, NeighboursUntouched, termination), with negative controls split / wide; binding: 12 (thorough 200) configurations of 2..16 threads mixing interpreter (through registered allowed memory), x86-64 JIT and Cranelift, 32 and 64 bit, 2*10^5 (2*10^6) adds per thread behind a barrier, final word and surrounding bytes validated by TLC (TraceXadd); every atomic add of the bounds family incl. misaligned ones replayed; non-trivial = configurations + cases"},
    "C19": {"level": "model_checking", "run": run_C19, "assumptions": ASSUME_COMMON + ["stdout of bpf_trace_printf captured through a pipe on fd 1"],
            "rule": "MC_Helpers: gather_bytes on 10 boundary words^5 (sampled), memfrob on every length 0..64 at 5 offsets of a canary-surrounded buffer (once and twice), strcmp on all ordered pairs of 16 strings incl. prefixes and bytes >= 0x80 plus null pointers, bpf_trace_printf with 16^k-1, 16^k, 16^k+1 (k = 0..16) in each printed position (returned = bytes printed = specified); sqrti at k^2, k^2+-1 around powers of two and random, rand on boundary (min,max) pairs incl. max = 2^64-1, validated by TLC against SqrtOk / RandOk; distinct by case"},
    "C17": {"level": "model_checking", "run": run_C17, "assumptions": ASSUME_COMMON,
            "rule": "MC_Isa: slots varying each byte position over all 256 values in 3 contexts (opcode, register byte, 4 immediate lanes) and the two offset bytes over all 65,536 values; invariant Encode(Decode(s)) = s and Decode(Encode(Decode(s))) = Decode(s); replayed through Insn::to_array, Insn::to_vec, get_insn at indices 0/1/7/1000, to_insn_vec; every builder constructor x Source x Arch x MemSize x Cond x Endian x boundary fields against Isa!Encode, Insn::to_array and (where a mnemonic exists) Asm / assemble; distinct by slot / constructor+fields; TLAPS: Decode(Encode(i)) = i for all well-typed instructions (IsaProofs.tla); builder programs of several and of up to 200,001 instructions; every entry of to_insn_vec"},
    "C13": {"level": "model_checking", "run": run_C13, "assumptions": ASSUME_COMMON + ["the harness's renderer (tokens -> text) is the only concrete-syntax step"],
            "rule": "MC_Text asm families: every mnemonic x its operand shape(s) x registers {0,9,10,15,16,99} x offsets around +-32768 x immediates around +-2^31 x 4 spellings (decimal/hex, explicit sign); every mnemonic with every other shape's operands; non-mnemonics; multi-instruction sequences (order, error in the middle, mnemonic after an operand-less instruction); literal classes up to 40 digits; Asm!Assemble gives bytes or refusal, DecodeOK checked in the model; replayed through rbpf::assembler::assemble; distinct by token program; every case is assembled in five white-space layouts of the grammar (canonical, indented with tabs and blank lines, no blank after commas, whole program on one line, line breaks after commas with CR LF) and must give the same answer"},
    "C14": {"level": "exploration", "run": run_C14, "assumptions": ASSUME_COMMON,
            "rule": "literal / shape / sequence classes of MC_Text (Asm!LitValue classifies every literal: decimal up to 40 digits, hex up to 20, signs, +-2^63 boundaries, huge register numbers, truncated operands) replayed for panics and time-outs, plus seeded string fuzzing (printable ASCII, arbitrary Unicode, token soup over a vocabulary with extreme literals, mutations of valid programs) in child processes with a 5 s watchdog; plus a deterministic corpus: words of every byte length up to 135 ending in a 2-, 3- or 4-byte letter (every byte offset inside a multi-byte character) in mnemonic / register / immediate / label position, and digit strings of every length 1..45 (9s, 1 followed by zeros, f's, signed, hex) in every operand position; distinct = distinct input strings"},
    "C15": {"level": "model_checking", "run": run_C15, "assumptions": ASSUME_COMMON + ["the harness's renderer (tokens -> text)"],
            "rule": "MC_Text disasm family: every supported opcode (and tail_call) x register nibbles {0,1,9,10,15}^2 x 9 offsets incl. -32768 x 10 immediates incl. +-2^31 x 3 contexts (alone, between instructions, after a wide load; wide loads with distinct halves); Disasm!HL gives entry count, fields, 64-bit immediate, name and operand tokens; replayed through rbpf::disassembler::to_insn_vec; distinct by byte string"},
    "C16": {"level": "model_checking", "run": run_C16, "assumptions": ASSUME_COMMON,
            "rule": "the C15 programs: in the specification Assemble(desc(HL(p))) is computed and the RoundTrip law (identity on expressible programs, canonical form whenever accepted) is an invariant of MC_Text; on the implementation assemble(join(to_insn_vec(p).desc)) must give exactly the specified bytes / refusal; distinct by byte string"},
    "C12": {"level": "model_checking", "run": run_C12, "assumptions": ASSUME_COMMON + ["hook H2 reports the JIT's counted / emitted / buffer sizes"],
            "rule": "every accepted program of the MC_Safety universe (all programs up to MaxLen slots over 32 templates: dead code, back edges, last-instruction kinds, wide loads, helper and local calls) compiled twice with the x86-64 JIT on the 4 VM kinds and with Cranelift, with helper sets {} and {1}; expected Ok/Err from Verifier!CompileOk; seeded random accepted programs (arbitrary opcodes / registers / displacements) validated by TLC (TraceCompile); size ladder 1..999,999 instructions incl. every size around the code buffer's first page boundary; families far, farcall, cfg, calls, flow (loops whose back edge spans every code distance from a few dozen to 190 bytes, conditional and unconditional) and pairs compiled and run crash-only; non-trivial = accepted programs Whatever the REAL verifier accepts is compiled (also programs the specification refuses: only panics count there)."},
    "C10": {"level": "model_checking", "run": run_C10, "assumptions": ASSUME_COMMON,
            "rule": "VmApi.tla explored completely (all histories over the finite abstract state: 8 programs x 4 verifiers x compiled artefacts x helper x calculator x layout) for each VM kind with invariants RunsLatestLoaded, ResultIsFunctionOfInputs (interpreter and both compilers: the value is the one with the helpers registered now - re-registering under a taken id drops compiled code), LoadedWasVerified, NoProgIsError, NotCompiledIsError and the action property FailedCallIsNoOp; binding: seeded random histories of 30 calls over {new, set_program(valid|invalid|valid-for-other-verifier, layout), set_verifier, register_helper, set_stack_usage_calculator, jit_compile, cranelift_compile, execute x3 engines x2 packets} on real VM objects of each kind, every call and result validated by TraceApi.tla; plus a transition cover: every transition of the abstract state graph (MC_VmApiTour, 250-772 states, 6-28 k transitions per kind) is taken at least once by call sequences planned by lib/tour.py, performed on real objects and validated the same way; 4 packets (two addresses, same address with another length, empty); non-trivial = histories"},
    "C05": {"level": "model_checking", "run": run_C05, "assumptions": ASSUME_COMMON,
            "rule": "MC_Safety: every program of 1..MaxLen slots over 32 instruction templates on the verifier's rule boundaries, explored under the control-flow abstraction MachineCF (all inputs, helper sets and budgets: branches, accesses and helper calls go both ways), invariant: accepted => never stuck; soundness of the abstraction checked as a refinement (Machine => MachineCF) on the concrete case families; every program is replayed through the real verifier and, if accepted, run on the real interpreter under a budget; non-trivial = accepted programs; TLAPS: SafetyAbs.tla (a well-formed abstract program of any length never gets stuck) + MC_SafetyAbs (MachineCF refines it on the universe); verdict replays also over a VM that already holds a program (a refused load must leave it runnable)"},
    "C06": {"level": "model_checking", "run": run_C06, "assumptions": ASSUME_COMMON,
            "rule": "MC_Verdict: 256 opcode bytes x register bytes x 5 positions, every jump/local-call opcode x displacement around program bounds and a wide load (incl. displacements beyond 16 bits), le/be/xadd/call immediates and call kinds, length classes up to 1,000,002 slots with trailing bytes, far targets in long programs; plus the MC_Safety universe; Verifier!Verdict decides; replayed through new() and set_program() of the four VM kinds; direction A: every verdict the default verifier gave while /repo's own tests ran (hook H4) validated by TraceVerdict.tla; distinct by id tuple; family 6 (contents of a wide load's second slot), family 7 (the same jump / call twice in a row)"},
    "C07": {"level": "model_checking", "run": run_C07, "assumptions": ASSUME_COMMON,
            "rule": "Cases.tla family calls: chains of nested local calls of depth 0..9 in forward and backward layout x 7 frame-size calculators (none, constant 0/16/64/256/512, per-entry table), bounded recursion depth 1..10, far calls; every function checks its callee-saved registers, r10, its own stack slot and the pass-through of r0-r5; a call tree (two calls from one function, per-function frame sizes); Machine.tla (invariants DepthBound, FramePointerOK) gives the outcome incl. depth / stack errors; replayed on interpreter and x86-64 JIT; random call chains and /repo's own tests validated step by step (depth, r6-r10, return addresses)"},
    "C08": {"level": "model_checking", "run": run_C08, "assumptions": ASSUME_COMMON + ["instrumented helpers read rsp with inline asm and compare it with the value seen when the same function is called from Rust"],
            "rule": "Cases.tla family helpers: ids {0,1,6,2^31-1,2^31,2^32-1} x 5 argument tuples from V64 x call depth 0..3 x 1-3 calls per program x registered sets {exact, superset, missing one}; Machine!ExecCallHelper logs the expected calls; instrumented helpers in the harness log the actual ones (id, arguments, stack alignment) on interpreter, JIT and Cranelift; call depth 7 and 8; a decoy registered (and compiled in) under every id before the real function; family flow; the suite's own helper calls validated step by step (memfrob's writes included: hr.wr from the recorder's memafter image); the harness helpers overwrite every caller-saved machine register and write memory when asked (cases hl: packet load after a helper; cases poke: bytes written by the helper read back through a register and with ldabs)"},
    "C09": {"level": "model_checking", "run": run_C09, "assumptions": ASSUME_COMMON,
            "rule": "Cases.tla family ctx: 12 probe programs x 4 VM kinds x 6 packet lengths (incl. 0) x 9 (data_offset, data_end_offset) pairs (either order, adjacent, 4096, 65536) x cold / warm (an earlier execution with another, larger packet elsewhere) / warm-same-address (an earlier execution with a packet at the same address and another length); Exec!InitFor gives the context; replayed on the three engines"},
    "C01": {"level": "model_checking", "run": run_C01, "assumptions": ASSUME_COMMON,
            "rule": "TLC enumerates Cases.tla families alu/jmp/far/mem (every ALU/JMP/JMP32/endian/load/store opcode x boundary operands V64/I32/OFFS x register pairs; branches at instruction indices up to 983,045), Machine.tla computes the outcome, the harness replays each case on the real interpreter; a case is non-trivial/distinct by its id tuple (family tag, opcode, registers, operand indices, immediate); direction A: seeded random structured programs and every interpreter run of /repo's own tests (tests/ubpf_vm.rs, tests/misc.rs, doc-tests in the thorough tier; hook H3) validated instruction by instruction by TraceInterp.tla, final stack bytes included; family frame (an instruction changes its destination and nothing else: all ten registers stored into the packet after one instruction of every ALU / byte-swap / packet-load opcode, on the raw and the fixed-metadata VM) and family flow (shapes that defeat translation-time knowledge: an unreached call of an unregistered helper, pairs of identical operations or conditional jumps at a jump target, aliases of one location, r0 rewritten by a helper / packet load / load / wide load / local call and then used as a source or a base, loops of every code distance, a loop header after a conditional jump); atomic adds in family mem; MC_Word64: the limb arithmetic against native 64-bit arithmetic"},
    "C02": {"level": "model_checking", "run": run_C02, "assumptions": ASSUME_COMMON,
            "rule": "Cases.tla family bounds: {ldx,st,stx,xadd} x widths x every position within 9 bytes of both ends of packet / metadata / stack / registered ranges x 3 base displacements x 6 layouts, null and wrap-around addresses, ldabs/ldind around the packet end; Machine!Allowed decides; replayed on the interpreter with buffers mapped at the stated addresses between unmapped pages; stack accesses addressed directly through r10; regions shorter than the access; nested registered ranges; the out-of-bounds and in-bounds runs of /repo's own tests validated step by step (hook H3); distinct by id tuple; two registered ranges one byte apart; pairs of accesses (narrow in bounds, then wider out of bounds) through one base"},
    "C03": {"level": "translation_validation", "run": run_C03, "assumptions": ASSUME_COMMON,
            "rule": "the C01 case set executed on the interpreter and the x86-64 JIT in forked children; results compared with each other and adjudicated by the specification; runs the specification judges undefined or erroneous are not executed on the JIT Families as C01 incl. calls, frame and flow (see C01); every compiled run of tests/ubpf_jit_x86_64.rs and tests/misc.rs validated by TraceInterp with silent steps"},
    "C04": {"level": "translation_validation", "run": run_C04, "assumptions": ASSUME_COMMON,
            "rule": "the C01 case set executed on the interpreter and Cranelift-compiled code in forked children; results compared with each other and adjudicated by the specification Families as C01 incl. calls, frame and flow; every compiled run of tests/cranelift.rs validated by TraceInterp with silent steps"},
    "C11": {"level": "model_checking", "run": run_C11, "assumptions": ASSUME_COMMON,
            "rule": "the C02 bounds family restricted to packet / metadata / stack, each case run on Cranelift-compiled code in a forked child: expected value, or death by SIGILL (trap) exactly where Machine!Allowed refuses the access; incl. accesses addressed directly through r10 with a constant offset at both ends of the stack, and atomic adds with non-zero offsets"},
}


def replay(prop, path):
    rec = json.load(open(path))
    core.build_harness()
    kind = rec.get("kind", "exec")
    if kind == "text":
        tmp = os.path.join(WORK, "replay_one.ndjson")
        open(tmp, "w").write(json.dumps(rec["record"]) + "\n")
        rv(["texts", "--cases", tmp, "--report", os.path.join(WORK, "replay_one.report.json")], check=False)
        rep = json.load(open(os.path.join(WORK, "replay_one.report.json")))
        print(json.dumps([f["reason"] for f in rep["failures"]] or "agrees with the specification", indent=1)[:3000])
        return 1 if rep["fail"] else 0
    if kind == "helper":
        tmp = os.path.join(WORK, "replay_one.ndjson")
        open(tmp, "w").write(json.dumps(rec["record"]) + "\n")
        rv(["helpers", "--cases", tmp, "--report", os.path.join(WORK, "replay_one.report.json")], check=False)
        rep = json.load(open(os.path.join(WORK, "replay_one.report.json")))
        print(json.dumps([f["reason"] for f in rep["failures"]] or "agrees with the specification", indent=1)[:3000])
        return 1 if rep["fail"] else 0
    if kind == "enc":
        tmp = os.path.join(WORK, "replay_one.ndjson")
        open(tmp, "w").write(json.dumps(rec["record"]) + "\n")
        rv(["encs", "--cases", tmp, "--report", os.path.join(WORK, "replay_one.report.json")], check=False)
        rep = json.load(open(os.path.join(WORK, "replay_one.report.json")))
        print(json.dumps([f["reason"] for f in rep["failures"]] or "agrees with the specification", indent=1)[:3000])
        return 1 if rep["fail"] else 0
    if kind == "fuzz":
        tmp = os.path.join(WORK, "replay_fuzz.txt")
        print("input:", json.dumps(rec["input"]))
        return 1
    if kind == "verdict":
        tmp = os.path.join(WORK, "replay_one.ndjson")
        open(tmp, "w").write(json.dumps(rec["record"]) + "\n")
        p = rv(["verdicts", "--cases", tmp, "--report", os.path.join(WORK, "replay_one.report.json")], check=False)
        rep = json.load(open(os.path.join(WORK, "replay_one.report.json")))
        print(json.dumps(rep["failures"] or rep["samples"], indent=1)[:3000])
        return 1 if rep["fail"] else 0
    if kind == "api-history":
        print(json.dumps(rec["history"][:rec.get("rejected_at", 0) + 1], indent=0)[:3000])
        ctx = core.Ctx(prop, "quick", 1)
        tmp = os.path.join(ctx.workdir, "replay_hist.ndjson")
        open(tmp, "w").write("\n".join(json.dumps(e) for e in rec["history"]) + "\n")
        r = run_tlc(f"{prop}-replay", "TraceApi", {"Kind": rec["vm_kind"]}, spec="TraceSpec", invariants=["TraceInv"],
                    postcondition="TraceAccepted", workers=1, timeout=600, env={"TRACE": tmp}, expect_violation=True)
        ok = "TRACE-ACCEPTED" in r.out
        print("recorded history is " + ("accepted" if ok else "REJECTED") + " by VmApi.tla (re-record with: rv record-api)")
        return 0 if ok else 1
    if kind == "trace":
        ctx = core.Ctx(prop, "quick", 1)
        tmp = os.path.join(ctx.workdir, "replay_case.ndjson")
        open(tmp, "w").write(json.dumps(rec["case"]) + "\n")
        trace_interp(ctx, "replay", 1, chunks=1, cases_file=tmp)
        for v in ctx.violations:
            print("DISAGREES:", v["reason"])
        print("agrees with the specification" if not ctx.violations else "")
        return 1 if ctx.violations else 0
    if kind == "exec":
        p = rv(["exec-one", "--case", path], check=False)
        print(p.stdout)
        return p.returncode
    print(json.dumps(rec, indent=1)[:4000])
    return 1


# ------------------------------------------------------------------------------------------------
# Texts for MANIFEST.json (lib/mkmanifest.py)
# ------------------------------------------------------------------------------------------------
NOTE_COMMON = ("Trusted: TLC + CommunityModules overrides; the harness's projections (JSON<->bytes, fixed-address "
               "buffers, fork isolation); agreement of the limb arithmetic with mathematics carried from 8-bit "
               "exhaustive checks to 64 bits; bounded case families (Cases.tla) - values outside the boundary sets "
               "and programs outside the enumerated shapes are not explored.")
MANIFEST_TEXT = {
    "C01": {"technique": "TLA+ machine (Machine.tla) model-checked with TLC; TLC-generated cases replayed on the interpreter; recorded interpreter runs (random programs and /repo's own test suite) validated step by step by TLC (trace validation)",
            "text": "TLC exhaustively explores the bounded case families of the specification (every opcode x boundary operands x register pairs, long-distance branches) with design invariants on, and proves the limb ALU equal to the ISA's mathematics on all 8-bit operand pairs; every generated behaviour is replayed on the real interpreter and must reproduce value and memory. Bounded, hence model checking rather than proof.",
            "note": NOTE_COMMON},
    "C02": {"technique": "TLA+ Allowed predicate model-checked over boundary positions; cases replayed on the interpreter in guard-paged buffers",
            "text": "Every access kind/width at every position within 9 bytes of each end of each region (and null / wrap-around addresses) is decided by Machine!Allowed in TLC and replayed on the interpreter with buffers mapped at the specification's addresses between unmapped pages; a refused access must leave memory unchanged, an in-bounds one must be performed.",
            "note": NOTE_COMMON},
    "C03": {"technique": "translation validation of x86-64 JIT against the interpreter on TLC-generated programs, adjudicated by the TLA+ machine; compiled runs of /repo's own tests validated by TLC with silent machine steps",
            "text": "Each TLC-generated program is run on the interpreter and on the JIT-compiled code; results and memory are compared and every disagreement is adjudicated by the specification's outcome. Programs, not the code generator, are validated.",
            "note": NOTE_COMMON + " The JIT is only run on cases the specification judges defined and error-free (it performs no run-time checks by design)."},
    "C04": {"technique": "translation validation of Cranelift-compiled code against the interpreter on TLC-generated programs, adjudicated by the TLA+ machine; compiled runs of /repo's own tests validated by TLC with silent machine steps",
            "text": "As C03 for the Cranelift backend, plus refusal of eBPF-to-eBPF calls at compile time.",
            "note": NOTE_COMMON},
    "C11": {"technique": "TLA+ Allowed predicate model-checked; each case run on Cranelift code in a forked child (value vs SIGILL trap)",
            "text": "The bounds family of C02 restricted to packet/metadata/stack: the compiled code must return the specified value for in-bounds accesses and die by the trap signal exactly where the specification refuses the access; any other signal or a returned value is a violation.",
            "note": NOTE_COMMON},
}
MANIFEST_TEXT.update({
    "C07": {"technique": "TLA+ call-frame machine model-checked over call-graph families; cases replayed on interpreter and x86-64 JIT",
            "text": "TLC explores every generated call chain (depth 0-9, both displacement signs, 7 calculators, recursion) with frame invariants on; each behaviour - returned fold of r6-r10, stack slots and pass-through registers, or the depth/stack error - is replayed on the interpreter, and on the JIT for the clauses the JIT claims.",
            "note": NOTE_COMMON + " The 'yields an error' clauses are checked on the interpreter only (the JIT performs no run-time checks by design). The JIT's shared frame is a recorded known finding (jit_r10)."},
    "C08": {"technique": "TLA+ helper-call action model-checked; expected call logs compared with instrumented helpers on three engines",
            "text": "For every generated program the specification yields the exact sequence of helper invocations (id, five arguments) and the final fold of r0/r6-r10; the harness's instrumented helpers record what each engine really calls, with which arguments and stack alignment; unregistered ids must be an interpreter error when reached and a compile error in both compilers.",
            "note": NOTE_COMMON},
    "C09": {"technique": "TLA+ InitFor context model; probe programs replayed on 4 VM kinds x 3 engines",
            "text": "Probe programs read r1, the two packet pointers of the fixed metadata buffer, packet loads and the stack limits; the specification's InitFor states what each VM kind must present, with the caller-owned buffers at fixed addresses so pointer values themselves are compared.",
            "note": NOTE_COMMON + " For an empty packet only data_end - data = 0 is required (pointer value free)."},
})
MANIFEST_TEXT.update({
    "C05": {"technique": "TLC over all small programs under a control-flow abstraction of the TLA+ machine (refinement-checked); programs replayed on real verifier + interpreter",
            "text": "Exhaustive: every program up to the length bound over the template alphabet, every path the abstraction allows (which covers all inputs), invariant accepted => not stuck, with a negative control (the pinned commit's rule fails) and a refinement check tying the abstraction to the full machine. Each program is then loaded and run on the real code, which must return Ok/Err.",
            "note": NOTE_COMMON + " Programs longer than the bound: the design-level argument is proved for any length with TLAPS on an abstraction (SafetyAbs.tla) that TLC shows MachineCF to refine on the bounded universe; on the implementation side they are covered by the long-program families and the random accepted-program traces."},
    "C06": {"technique": "TLA+ WellFormed predicate evaluated by TLC on rule-boundary byte strings; verdicts replayed through every loading entry point; verdicts recorded while /repo's own tests run validated by TLC",
            "text": "Each enumerated byte string gets its verdict from the named rules of Verifier.tla (rule independence checked: every rule is the sole reason of some refusal); the real verifier must return the same verdict through new() and set_program() of all four VM kinds, as an error value.",
            "note": NOTE_COMMON},
})
MANIFEST_TEXT.update({
    "C10": {"technique": "finite-state TLA+ life-cycle model explored completely by TLC; a transition cover of its state graph walked on real VM objects and random API histories, both validated against it by TLC (trace validation)",
            "text": "The abstract VM state is finite, so TLC covers every history of the design, not a bounded sample; the real VM objects are bound to it by validating thousands of random call histories (arguments and results) of each VM kind against the specification, which tracks every state consistent with the observations where the statement leaves the mechanism open.",
            "note": NOTE_COMMON + " The default verifier cannot be re-installed through the public API, so set_verifier(default) is not exercised."},
})
MANIFEST_TEXT.update({
    "C12": {"technique": "TLA+ compile contract (Verifier!CompileOk) evaluated by TLC on all small programs and on recorded compilations (trace validation); JIT size hook",
            "text": "TLC enumerates every program up to the bound over the template alphabet and states for each accepted one whether compilation must succeed; the harness compiles each with both compilers, all VM kinds and two helper sets, twice, under catch_unwind in a child, and compares; random accepted programs and a size ladder extend the reach; the JIT's sizing pass must count exactly what the emission pass writes.",
            "note": NOTE_COMMON + " Out-of-bounds writes by the code generators are observed only through the size hook, the emit assertions and process crashes."},
})
MANIFEST_TEXT.update({
    "C13": {"technique": "TLA+ assembler function (Asm.tla) evaluated by TLC on token-level cases; rendered text replayed through assemble()",
            "text": "The specification maps abstract syntax (mnemonic, operands, literals as digit strings with overflow-detecting evaluation) to instruction slots; TLC enumerates mnemonics x shapes x boundary operands x spellings and checks that accepted output decodes back to what was written; the real assembler must produce the same bytes or a refusal for the rendered text.",
            "note": NOTE_COMMON},
    "C14": {"technique": "TLA+ literal/shape classes (Asm.tla) for the oracle and boundary classes, plus seeded string fuzzing with a watchdog",
            "text": "The input space is all strings, so this is exploration: the specification contributes the classification of numeric literals and operand shapes (every class is evaluated by TLC and replayed), string-level fuzzing covers what the abstract syntax cannot express; any panic, signal or time-out is a violation.",
            "note": NOTE_COMMON},
    "C15": {"technique": "TLA+ disassembler function (Disasm.tla) evaluated by TLC; entries compared with to_insn_vec()",
            "text": "For every enumerated program the specification gives the entries (fields, merged 64-bit immediate, name, operand text as tokens); the real disassembler's output must match field by field and character by character, without panicking.",
            "note": NOTE_COMMON},
    "C16": {"technique": "round-trip law checked by TLC on the composition Asm o Disasm of the two TLA+ specifications, and replayed on the implementation",
            "text": "RoundTrip is an invariant of the bounded model (a statement about the two specifications fitting together); since C13 and C15 bind each tool to its specification the law carries over, and it is additionally checked directly on the code for every enumerated program.",
            "note": NOTE_COMMON},
})
MANIFEST_TEXT.update({
    "C17": {"technique": "TLA+ slot encoding (Isa.tla) checked inverse by TLC per field exhaustively; every slot and builder constructor replayed through the public encoders/decoders",
            "text": "Per-field exhaustive: each byte position of the slot takes all values (offsets all 65,536) with the other fields on boundaries, TLC checks Encode and Decode inverse on each and the harness checks that both encoders, the decoder at several indices, the builder and the assembler agree with it; the thorough tier sweeps all 2^32 immediates in Rust.",
            "note": NOTE_COMMON + " Fields are exhaustive one at a time (the encoding is byte-wise), not in the full 2^64 product."},
})
MANIFEST_TEXT.update({
    "C19": {"technique": "TLA+ helper functions (Helpers.tla) evaluated by TLC on boundary cases and replayed; recorded sqrti/rand results validated by TLC predicates",
            "text": "gather_bytes, memfrob, strcmp and the printed length are functions in the specification; TLC enumerates boundary arguments (checking memfrob's involution and strcmp's zero-iff-equal law in the model) and the real helpers must return exactly those results and touch exactly those bytes; sqrti and rand are relations (floating-point rounding, randomness) so their recorded results are validated against the specified predicates.",
            "note": NOTE_COMMON},
})
MANIFEST_TEXT.update({
    "C18": {"technique": "TLA+ model of concurrent atomic adds checked by TLC over all interleavings (with negative controls); stress results from real threads validated by TLC",
            "text": "The model decides the design for every interleaving of a few processes; whether `lock add`, fetch_add and atomic_rmw as emitted are really indivisible can only be stressed: many threads on mixed engines hammer one word and TLC validates that the final value is the only admissible one and that no other byte moved. A lost update is a sound alarm; its absence is statistical.",
            "note": NOTE_COMMON},
})
MANIFEST_TEXT.update({
    "C20": {"technique": "transcripts of two builds (std / no_std) over a TLC-generated corpus, compared with each other and with the TLA+ specification's answers by TLC (TracePair)",
            "text": "Corpus-bounded, hence exploration: every item of the corpus the other checks use is answered by both builds of the crate; TLC checks the transcripts equal and, where MC_Text / MC_Verdict / MC_Exec state the answer, equal to it.",
            "note": NOTE_COMMON},
})
NOT_APPLICABLE = {}
