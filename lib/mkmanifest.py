#!/usr/bin/env python3
"""Regenerate MANIFEST.json from lib/props.py (one source of truth for what is claimed)."""
import json, os, sys
ROOT = os.path.dirname(os.path.dirname(os.path.abspath(__file__)))
sys.path.insert(0, os.path.join(ROOT, "lib"))
import props, subprocess

TEXT = props.MANIFEST_TEXT
allp = [json.loads(l)["id"] for l in open(os.path.join(ROOT, "properties.jsonl"))]
hooks_commits = subprocess.check_output(["git", "-C", "/repo", "log", "--format=%h %s", "--grep", "^verif hooks"]).decode().strip().splitlines()
checks = []
for pid in allp:
    if pid not in props.CHECKS:
        continue
    c = props.CHECKS[pid]
    t = TEXT[pid]
    checks.append({
        "property_id": pid,
        "quick_cmd": f"./check {pid} --tier quick",
        "thorough_cmd": f"./check {pid} --tier thorough",
        "evidence_file": f"evidence/{pid}.json",
        "replay_cmd_template": f"./check {pid} --replay {{path}}",
        "engine": "tlc+rv",
        "level_claimed": {"category": c["level"], "text": t["text"], "design_ref": t.get("design_ref", "DESIGN.md 5")},
        "level_note": t["note"],
        "technique": t["technique"],
    })
na = [{"property_id": p, "reason": props.NOT_APPLICABLE.get(p, "check not built yet in this round; see DESIGN.md 5 for the plan")}
      for p in allp if p not in props.CHECKS]
m = {
    "version": 1,
    "setup_cmd": "./check --setup",
    "hooks": {
        "guard": "rbpf_verif",
        "enable": "RUSTFLAGS --cfg rbpf_verif, set for the harness in harness/.cargo/config.toml (rbpf is a path dependency on /repo, so every check rebuilds it from the working tree); for the execution recorder (H3) the checks run /repo's own tests with RUSTFLAGS=--cfg rbpf_verif and RBPF_VERIF_TRACE_DIR set, in a target directory under work/",
        "baseline_off_cmd": "cd /repo && cargo nextest run --workspace --no-fail-fast --test-threads 8 --offline",
        "source_commits": [h.split()[0] for h in hooks_commits],
        "add_only": True,
    },
    "engines": [
        {"name": "tlc+rv", "path": "spec/ + harness/", "serves_properties": [c["property_id"] for c in checks],
         "kind_free_text": "TLA+ specification model-checked with TLC; TLC-generated behaviours replayed into the real code and recorded executions validated against the specification (harness/ = Rust crate rv)"}
    ],
    "checks": checks,
    "notes": "Model-based verification with an explicit TLA+ specification (spec/). See DESIGN.md. known_findings.json lists recorded and repaired defects.",
    "not_applicable": na,
}
json.dump(m, open(os.path.join(ROOT, "MANIFEST.json"), "w"), indent=1)
print(f"MANIFEST.json: {len(checks)} checks, {len(na)} not claimed")
