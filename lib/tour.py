"""Transition cover of VmApi's state graph (C10, direction B).

TLC (MC_VmApiTour) prints every transition of the life-cycle model; plan() turns them into call
sequences ("histories") that take every transition at least once: from the current state take an
untaken transition if there is one, otherwise walk (shortest path) to the nearest state that has
one, otherwise start a new history (a new VM object).  The result is only a plan of calls: what the
real object answers is judged by TLC (TraceApi), never by this file."""
import json
from collections import deque


def parse_edges(tlc_out):
    edges = []
    for line in tlc_out.splitlines():
        if line.startswith('"EDGE '):
            body = line[len('"EDGE '):-1].replace('\\"', '"').replace("\\\\", "\\")
            edges.append(json.loads(body))
    return edges


def unsafe(e):
    # compiled code has no run-time checks: P7 on an empty packet would fault the process
    return e["op"] in ("exec_jit", "exec_cl") and e["arg"] == "pe" and e["src"][0] == "P7"


def plan(edges, kind, max_len=300):
    key = lambda v: json.dumps(v)
    out = {}        # src -> list of (op, arg, dst)
    for e in edges:
        if unsafe(e):
            continue
        lst = out.setdefault(key(e["src"]), [])
        t = (e["op"], json.dumps(e["arg"]), key(e["dst"]))
        if t not in lst:
            lst.append(t)
    init = key(edges[0]["src"])
    starts = [t for t in out.get(init, []) if t[0] == "new"]
    todo = {s: [t for t in ts if t[0] != "new"] for s, ts in out.items()}
    # self-loops first (executions), then the rest
    for s in todo:
        todo[s].sort(key=lambda t: (t[2] != s, t[0], t[1]))
    remaining = sum(len(v) for v in todo.values())
    total = remaining
    histories = []

    def nearest(src):
        """shortest path (list of transitions) from src to a state with untaken transitions"""
        seen = {src: None}
        q = deque([src])
        while q:
            u = q.popleft()
            if todo.get(u) and u != src:
                path = []
                while seen[u] is not None:
                    pu, t = seen[u]
                    path.append(t)
                    u = pu
                return list(reversed(path))
            for t in out.get(u, []):
                if t[0] == "new" or t[2] in seen:
                    continue
                seen[t[2]] = (u, t)
                q.append(t[2])
        return None

    first_choices = [("none", init)] + [(json.loads(t[1]), t[2]) for t in starts]
    fi = 0
    while remaining > 0:
        first, cur = first_choices[fi % len(first_choices)]
        fi += 1
        calls = []
        progressed = False
        while len(calls) < max_len:
            if todo.get(cur):
                t = todo[cur].pop(0)
                remaining -= 1
                progressed = True
            else:
                path = nearest(cur)
                if path is None:
                    break
                for t in path[:-1]:
                    calls.append([t[0], json.loads(t[1])])
                    cur = t[2]
                t = path[-1]
            calls.append([t[0], json.loads(t[1])])
            cur = t[2]
        if calls:
            histories.append({"kind": kind, "first": first, "calls": calls})
        if not progressed and fi > 4 * len(first_choices):
            break   # (unreachable transitions: cannot happen, every state was reached from init)
    return histories, total, total - remaining


def memo_histories(kind):
    """Histories whose outcome depends on what the SAME object accepted earlier (a transition cover
    does not ask for that): a program accepted under one verifier, replaced, a stricter verifier
    installed, the first program (the very same slice) offered again - it must be refused and the
    VM must go on running the other one.  The specification (TraceApi) supplies the verdicts."""
    acc = {"default": ["P1", "P2", "P4", "P5", "P6", "P7", "P8", "P9"],
           "acceptAll": ["P1", "P2", "P3", "P4", "P5", "P6", "P7", "P8", "P9"],
           "custom": ["P1", "P2", "P4", "P6"]}
    # (P7 needs a packet, P8 / P9 the fixed-metadata VM: VmApi!Progs)
    absent = set(["P7"] if kind == "nodata" else []) | set([] if kind == "fixed" else ["P8", "P9"])
    acc = {v: [p for p in ps if p not in absent] for v, ps in acc.items()}
    out = []
    for a in ("default", "acceptAll"):
        for b in ("custom", "default"):
            if a == b or b == "default":
                continue
            only_a = [p for p in acc[a] if p not in acc[b]]
            both = [p for p in acc[a] if p in acc[b]]
            for i, p in enumerate(only_a):
                q = both[i % len(both)]
                pre = [] if a == "default" else [["set_verifier", a]]
                tail = [["set_program", [q, "A"]], ["exec", "pa"], ["set_verifier", b], ["set_program", [p, "A"]],
                        ["exec", "pa"], ["exec", "pb"], ["jit_compile", "none"], ["exec_jit", "pa"],
                        ["set_verifier", "acceptAll"], ["set_program", [p, "A"]], ["exec", "pa"]]
                out.append({"kind": kind, "first": "none", "calls": pre + [["set_program", [p, "A"]], ["exec", "pa"]] + tail})
                if a == "default":
                    out.append({"kind": kind, "first": p, "calls": [["exec", "pa"]] + tail})
    return out
