"""Shared machinery of ./check: building the harness, running TLC, running the harness,
known findings, evidence files, exit codes."""
import os, sys, json, time, subprocess, re, shutil

ROOT = os.path.dirname(os.path.dirname(os.path.abspath(__file__)))
SPEC = os.path.join(ROOT, "spec")
WORK = os.path.join(ROOT, "work")
HARNESS = os.path.join(ROOT, "harness")
EVID = os.path.join(ROOT, "evidence")
REPO = "/repo"
TLA_CP = "/opt/veriftools/tla/tla2tools.jar:/opt/veriftools/tla/CommunityModules-deps.jar"
TLAPS_LIB = "/opt/veriftools/tlapm/lib/tlapm/stdlib"     # TLAPS.tla, for modules that carry proofs (TLC ignores the proofs)


class ToolError(Exception):
    pass


def sh(cmd, cwd=None, timeout=None, env=None, check=True):
    e = dict(os.environ)
    if env:
        e.update(env)
    try:
        p = subprocess.run(cmd, cwd=cwd, timeout=timeout, env=e, stdout=subprocess.PIPE,
                           stderr=subprocess.STDOUT, text=True)
    except subprocess.TimeoutExpired:
        raise ToolError(f"command timed out after {timeout}s: {' '.join(cmd)[:300]}")
    if check and p.returncode != 0:
        raise ToolError(f"command failed ({p.returncode}): {' '.join(cmd)}\n{p.stdout[-3000:]}")
    return p


# ------------------------------------------------------------------------------------------------
# harness
# ------------------------------------------------------------------------------------------------
def build_harness(release=False, nostd=False):
    """(Re)build the harness against /repo's current working tree (cargo fingerprints the path
    dependency, so edits under /repo/src are picked up)."""
    d = HARNESS if not nostd else os.path.join(ROOT, "harness_nostd")
    lock = os.path.join(d, "Cargo.lock")
    if not os.path.exists(lock):
        shutil.copy(os.path.join(REPO, "Cargo.lock"), lock)
    cmd = ["cargo", "build", "--offline", "-j", "12"] + (["--release"] if release else [])
    env = {"CARGO_NET_OFFLINE": "true"}
    p = sh(cmd, cwd=d, env=env, check=False, timeout=1500)
    if p.returncode != 0:
        raise ToolError("harness build failed:\n" + p.stdout[-4000:])
    name = "rv" if not nostd else "rv_nostd"
    return os.path.join(d, "target", "release" if release else "debug", name)


def rv(args, release=False, timeout=3600, check=True):
    exe = os.path.join(HARNESS, "target", "release" if release else "debug", "rv")
    p = sh([exe] + args, cwd=ROOT, timeout=timeout, check=False)
    if check and p.returncode != 0:
        raise ToolError(f"rv {' '.join(args[:3])} failed ({p.returncode}):\n{p.stdout[-3000:]}")
    return p


# ------------------------------------------------------------------------------------------------
# TLC
# ------------------------------------------------------------------------------------------------
def tla_value(v):
    if isinstance(v, bool):
        return "TRUE" if v else "FALSE"
    if isinstance(v, int):
        return str(v)
    if isinstance(v, str):
        return '"' + v + '"'
    if isinstance(v, (set, frozenset)):
        return "{" + ", ".join(sorted(tla_value(x) for x in v)) + "}"
    if isinstance(v, (list, tuple)):
        return "<<" + ", ".join(tla_value(x) for x in v) + ">>"
    raise ValueError(v)


class TlcResult:
    def __init__(self):
        self.out = ""
        self.generated = 0
        self.distinct = 0
        self.depth = 0
        self.replay = []
        self.ok = False
        self.violation = None
        self.wall = 0.0
        self.coverage = {}


def unescape_tla_string(s):
    # TLC prints a TLA+ string value with \" and \\ escapes
    out = []
    i = 0
    while i < len(s):
        c = s[i]
        if c == "\\" and i + 1 < len(s):
            out.append(s[i + 1])
            i += 2
        else:
            out.append(c)
            i += 1
    return "".join(out)


def run_tlc(tag, module, consts, spec="Spec", invariants=(), properties=(), workers=8, timeout=600,
            extra_cfg="", env=None, simulate=None, coverage=False, expect_violation=False,
            postcondition=None, constraint=None, view=None):
    """Run TLC on spec/<module>.tla with a generated configuration.  Returns a TlcResult; raises
    ToolError on time-out or a TLC failure that is not an invariant violation."""
    wd = os.path.join(WORK, tag)
    shutil.rmtree(wd, ignore_errors=True)
    os.makedirs(wd, exist_ok=True)
    cfg = ["CONSTANTS"] + [f"  {k} = {tla_value(v)}" for k, v in consts.items()]
    cfg.append(f"SPECIFICATION {spec}")
    for i in invariants:
        cfg.append(f"INVARIANT {i}")
    for p in properties:
        cfg.append(f"PROPERTY {p}")
    if postcondition:
        cfg.append(f"POSTCONDITION {postcondition}")
    if constraint:
        cfg.append(f"CONSTRAINT {constraint}")
    if view:
        cfg.append(f"VIEW {view}")
    cfg.append("CHECK_DEADLOCK FALSE")
    cfg.append(extra_cfg)
    cfg_path = os.path.join(wd, f"{module}.cfg")
    open(cfg_path, "w").write("\n".join(cfg) + "\n")
    # (java.io.tmpdir: TLC creates an empty tlc-* directory per run; keep it out of /tmp)
    cmd = ["java", "-XX:+UseParallelGC", "-Xss512m", "-Xmx12g", "-Djava.io.tmpdir=" + wd, "-DTLA-Library=" + TLAPS_LIB, "-cp", TLA_CP, "tlc2.TLC",
           "-maxSetSize", "40000000", "-workers", str(workers), "-metadir", os.path.join(wd, "states"), "-cleanup",
           "-noGenerateSpecTE", "-config", cfg_path]
    if coverage:
        cmd += ["-coverage", "1"]
    if simulate:
        cmd += ["-simulate", simulate]
    cmd.append(os.path.join(SPEC, module + ".tla"))
    e = dict(os.environ)
    if env:
        e.update(env)
    t0 = time.time()
    out_path = os.path.join(wd, "tlc.out")
    with open(out_path, "w") as f:
        try:
            p = subprocess.run(cmd, cwd=SPEC, stdout=f, stderr=subprocess.STDOUT, env=e, timeout=timeout)
        except subprocess.TimeoutExpired:
            raise ToolError(f"TLC {module} ({tag}) timed out after {timeout}s")
    r = TlcResult()
    r.wall = time.time() - t0
    text = open(out_path, errors="replace").read()
    r.out = text
    for line in text.splitlines():
        if line.startswith('"REPLAY '):
            body = line[len('"REPLAY '):]
            if body.endswith('"'):
                body = body[:-1]
            try:
                r.replay.append(json.loads(unescape_tla_string(body)))
            except json.JSONDecodeError as ex:
                raise ToolError(f"unparsable REPLAY line from {module}: {ex}: {line[:200]}")
    m = re.search(r"(\d[\d,]*) states generated, (\d[\d,]*) distinct states found", text)
    if m:
        r.generated = int(m.group(1).replace(",", ""))
        r.distinct = int(m.group(2).replace(",", ""))
    m = re.search(r"depth of the complete state graph search is (\d+)", text)
    if m:
        r.depth = int(m.group(1))
    if "Model checking completed. No error has been found." in text or (simulate and p.returncode == 0):
        r.ok = True
    elif re.search(r"Error: Invariant (\S+) is violated", text) or "is violated" in text:
        r.violation = text[text.find("Error:"):][:6000]
        if not expect_violation:
            pass
    else:
        if not expect_violation:
            raise ToolError(f"TLC {module} ({tag}) failed:\n" + text[-3000:])
    shutil.rmtree(os.path.join(wd, "states"), ignore_errors=True)
    return r


# ------------------------------------------------------------------------------------------------
# known findings
# ------------------------------------------------------------------------------------------------
def load_known():
    p = os.path.join(ROOT, "known_findings.json")
    if not os.path.exists(p):
        return {"findings": [], "fixed": []}
    return json.load(open(p))


def known_devs(prop):
    """Deviation keys of the recorded (unrepaired) findings that concern this property."""
    return sorted({f["key"] for f in load_known()["findings"] if prop in f["properties"]})


# ------------------------------------------------------------------------------------------------
# a check run
# ------------------------------------------------------------------------------------------------
class Ctx:
    def __init__(self, prop, tier, seed):
        self.prop, self.tier, self.seed = prop, tier, seed
        self.quick = tier == "quick"
        self.states = 0
        self.transitions = 0
        self.traces = 0            # behaviours replayed into / traces validated against the implementation
        self.evaluations = 0
        self.nontrivial = 0
        self.programs = 0
        self.disagreements_checked = 0
        self.samples = []
        self.violations = []       # dicts with "reason" and a self-contained "replay" record
        self.known_hits = {}       # key -> count
        self.skipped = {}
        self.notes = []
        self.extra = {}
        self.tlc_runs = []
        self.workdir = os.path.join(WORK, prop)
        os.makedirs(self.workdir, exist_ok=True)

    def add_tlc(self, name, r):
        self.states += r.distinct
        self.transitions += r.generated
        self.tlc_runs.append({"model": name, "distinct_states": r.distinct, "states_generated": r.generated,
                              "depth": r.depth, "wall_s": round(r.wall, 1)})

    def violation(self, reason, record):
        self.violations.append({"reason": reason, "replay": record})

    def known(self, key, what=None):
        self.known_hits[key] = self.known_hits.get(key, 0) + 1

    def skip(self, why, n=1):
        self.skipped[why] = self.skipped.get(why, 0) + n

    def sample(self, s):
        if len(self.samples) < 4:
            self.samples.append(s)


def write_evidence(ctx, level, wall, rule, assumptions):
    os.makedirs(EVID, exist_ok=True)
    cov = {
        "rule": rule,
        "samples": ctx.samples if ctx.samples else [{"note": "no sample recorded"}],
        "evaluations": ctx.evaluations,
        "distinct_nontrivial": ctx.nontrivial,
        "skipped_outside_claim": ctx.skipped,
        "known_findings_hit": ctx.known_hits,
        "tlc_runs": ctx.tlc_runs,
        "notes": ctx.notes,
    }
    cov.update(ctx.extra)
    if level == "model_checking":
        cov.update({"states": ctx.states, "transitions": ctx.transitions,
                    "traces_validated_against_impl": ctx.traces})
    elif level == "translation_validation":
        cov.update({"programs": ctx.programs, "disagreements_checked": ctx.disagreements_checked,
                    "states": ctx.states, "transitions": ctx.transitions})
    else:
        cov.update({"states": ctx.states, "transitions": ctx.transitions})
    ev = {"property_id": ctx.prop, "tier": ctx.tier, "seed": ctx.seed, "level": level, "coverage": cov,
          "assumptions": assumptions, "wall_s": round(wall, 1), "violations": len(ctx.violations)}
    json.dump(ev, open(os.path.join(EVID, f"{ctx.prop}.json"), "w"), indent=1)


def run_check(prop, tier, seed, spec):
    t0 = time.time()
    ctx = Ctx(prop, tier, seed)
    build_harness()
    try:
        spec["run"](ctx)
    except ToolError as e:
        # a later stage of the check could not run (typically a self-test that assumes the part of
        # the implementation it exercises to be intact): what was already found is reported
        if not ctx.violations:
            raise
        ctx.notes.append(f"a later stage ended with a tool error after violations had been found: {str(e)[:500]}")
        print(f"NOTE property={prop}: a later stage of the check ended with a tool error ({str(e)[:200]}); reporting the violations found before it")
    wall = time.time() - t0
    write_evidence(ctx, spec["level"], wall, spec["rule"], spec["assumptions"])
    known = {f["key"]: f for f in load_known()["findings"]}
    for key, n in sorted(ctx.known_hits.items()):
        what = known.get(key, {}).get("what", key)
        print(f"KNOWN-FINDING: property={prop} {what} [{key}; {n} occurrence(s) in this run]")
    if ctx.violations:
        rdir = os.path.join(WORK, "replay")
        os.makedirs(rdir, exist_ok=True)
        seen = set()
        shown = 0
        for i, v in enumerate(ctx.violations):
            sig = v["reason"][:120]
            if sig in seen and shown >= 5:
                continue
            seen.add(sig)
            path = os.path.join(rdir, f"{prop}-{tier}-{i}.json")
            rec = dict(v["replay"])
            rec["reason"] = v["reason"]
            rec["property"] = prop
            json.dump(rec, open(path, "w"))
            print(f"VIOLATION property={prop} replay={os.path.relpath(path, ROOT)}")
            print(f"  reason: {v['reason'][:400]}")
            shown += 1
            if shown >= 20:
                break
        print(f"{prop} [{tier}]: {len(ctx.violations)} violation(s), {wall:.0f}s")
        return 1
    print(f"{prop} [{tier}]: held on everything explored "
          f"(states={ctx.states}, impl-bound behaviours={ctx.traces}, evaluations={ctx.evaluations}, {wall:.0f}s)")
    return 0
