"""Direction A on the repository's own tests: executions recorded by hook H3 (every interpreter
run made through a VM object while `cargo test` runs with RBPF_VERIF_TRACE_DIR set) are converted
into the event format of TraceInterp.tla.  Nothing is judged here: runs the specification cannot
speak about (registered ranges whose bytes were not captured, a helper that wrote memory, more
than 20,000 steps) are set aside and counted; everything else goes to TLC."""
import json, os


def err_class(msg):
    for needle, cls in (("out of bounds", "oob"), ("unaligned", "unaligned"), ("unknown helper", "nohelper"),
                        ("too many nested calls", "depth"), ("instruction budget", "budget"),
                        ("unsupported call type", "calltype"), ("TAIL_CALL", "tailcall"), ("No program set", "noprog")):
        if needle in msg:
            return cls
    return "other"


def word(v):
    return sum(b << (8 * i) for i, b in enumerate(v))


def word_json(x):
    return [(x >> (8 * i)) & 0xff for i in range(8)]


def segs(prog):
    out = []
    for k in range(0, len(prog) - 7, 8):
        s = prog[k:k + 8]
        off = s[2] | (s[3] << 8)
        off = off - 65536 if off >= 32768 else off
        imm = s[4] | (s[5] << 8) | (s[6] << 16) | (s[7] << 24)
        imm = imm - (1 << 32) if imm >= (1 << 31) else imm
        ins = [s[0], s[1] & 15, s[1] >> 4, off, imm]
        if out and out[-1][1] == ins:
            out[-1][0] += 1
        else:
            out.append([1, ins])
    return out


FICT_STACK = 0x7ff000000000      # Exec!BaseFor's fictitious stack base (direction B)


def convert_engine(b, end, idx):
    """A run of compiled code (hook H5): no steps were observed; TraceInterp!EngStart / Silent /
    EngEnd run the machine from the recorded inputs and compare the recorded result."""
    if b["allowed"]:
        return None, "registered ranges (their bytes are not captured)"
    if end["k"] != "ok":
        return None, "compiled code was not run (" + end["msg"][:40] + ")"
    prog = b["prog"]
    if len(prog) % 8 != 0 or not prog:
        return None, "program is not a whole number of slots"
    if any(prog[k] == 0x85 and prog[k + 1] >> 4 == 0 for k in range(0, len(prog), 8)):
        return None, "compiled run with helper calls (helper results are not observable there)"
    mb = list(b["mbuff"])
    mem_base = word(b["mem_base"]) if b["mem"] else 0
    if b["fixed"]:
        # the fixed-metadata VM stores the packet's start / end addresses at its two offsets (C09)
        # (null for an empty packet, under every engine)
        for off, v in ((b["fixed"][0], mem_base), (b["fixed"][1], (mem_base + len(b["mem"])) % (1 << 64))):
            if off + 8 > len(mb):
                return None, "fixed-metadata buffer too small for its offsets"
            mb[off:off + 8] = word_json(v)
    for base, n in ((mem_base, len(b["mem"])), (word(b["mbuff_base"]), len(mb))):
        if n and base < FICT_STACK + 4096 and base + n > FICT_STACK - 4096:
            return None, "a buffer lies where the specification puts its fictitious stack"
    vm = "mbuff" if mb else ("raw" if b["mem"] else "nodata")
    case = {"id": ["test", idx, 0], "fam": "repo-tests", "vm": vm, "prog": segs(prog),
            "pkt": {"base": b["mem_base"] if b["mem"] else word_json(0), "bytes": b["mem"]},
            "mbuf": {"base": b["mbuff_base"] if mb else word_json(0), "bytes": mb},
            "fixed": [0, 8], "allow": [], "helpers": sorted(b["helpers"]), "calc": b["calc"],
            "fsz": {"dflt": 256, "tab": sorted(b["frames"]) if b["calc"] else []},
            "budget": 0, "dev": [], "warm": 0, "wf": True}
    return [{"e": "estart", "case": case, "engine": b["engine"]},
            {"e": "eend", "engine": b["engine"], "k": end["k"], "val": end["val"], "pkt": end["mem"], "mbuf": end["mbuff"]}], None


def convert(path, idx, engines=False):
    """-> (events, None) or (None, reason it is set aside)"""
    lines = [json.loads(x) for x in open(path).read().splitlines() if x.strip()]
    if not lines or lines[0]["e"] != "begin" or lines[-1]["e"] != "end":
        return None, "incomplete recording"
    b, end = lines[0], lines[-1]
    body = lines[1:-1]
    eng = b.get("engine", "interp")
    if (eng != "interp") != bool(engines) or (engines and engines is not True and eng not in engines):
        return None, "other engine"
    if engines:
        return convert_engine(b, end, idx)
    if b["allowed"]:
        return None, "registered ranges (their bytes are not captured)"
    if end["truncated"]:
        return None, "more than 20000 steps"
    if any(e["e"] == "helper" and e["memchg"] and not (k + 1 < len(body) and body[k + 1]["e"] == "memafter")
           for k, e in enumerate(body)):
        return None, "a helper wrote memory and the recording has no image of it"
    if len(b["prog"]) % 8 != 0 or not b["prog"]:
        return None, "program is not a whole number of slots"
    vm = "mbuff" if b["mbuff"] else ("raw" if b["mem"] else "nodata")
    case = {"id": ["test", idx, 0], "fam": "repo-tests", "vm": vm, "prog": segs(b["prog"]),
            "pkt": {"base": b["mem_base"] if b["mem"] else word_json(0), "bytes": b["mem"]},
            "mbuf": {"base": b["mbuff_base"] if b["mbuff"] else word_json(0), "bytes": b["mbuff"]},
            "fixed": [0, 8], "allow": [], "helpers": sorted(b["helpers"]), "calc": b["calc"],
            "fsz": {"dflt": 256, "tab": sorted(b["frames"]) if b["calc"] else []},
            "budget": 0, "dev": [], "warm": 0, "wf": True}
    steps = [e for e in body if e["e"] == "step"]
    out = []
    if steps:
        regs = steps[0]["regs"]
        out.append({"e": "start", "case": case, "regs": regs, "stack": word_json((word(regs[10]) - 512) % (1 << 64)),
                    "imbuf": regs[1]})
    else:
        out.append({"e": "start", "case": case, "regs": [word_json(0)] * 11, "stack": word_json(0), "imbuf": word_json(0), "norun": True})
    stack_base = word_json((word(steps[0]["regs"][10]) - 512) % (1 << 64)) if steps else word_json(0)
    for k, e in enumerate(body):
        if e["e"] == "step":
            out.append({"e": "step", "pc": e["pc"], "depth": e["depth"], "regs": e["regs"]})
        elif e["e"] == "helper":
            # what the helper wrote (Machine!ExecCallHelper, hr.wr): the recorder gives the image of
            # each region after the call; whole-region writes say the same thing
            wr = []
            if e["memchg"]:
                after = body[k + 1]
                for base, img in ((b["mem_base"], after["mem"]), (b["mbuff_base"], after["mbuff"]), (stack_base, after["stack"])):
                    if img:
                        wr.append({"addr": base, "bytes": img})
            out.append({"e": "helper", "id": e["id"], "args": e["args"], "ret": e["ret"], "wr": wr})
    skipped = {"k": "skipped", "val": word_json(0), "pkt": [], "mbuf": []}
    out.append({"e": "end", "k": end["k"], "pkt": end["mem"], "mbuf": end["mbuff"], "allow": [],
                "class": err_class(end["msg"]) if end["k"] == "err" else "", "msg": end["msg"], "val": end["val"],
                "stack": end["stack"], "jit": skipped, "cl": skipped})
    return out, None


def convert_verdicts(d, out_path):
    """verdicts-*.ndjson (hook H4) -> events for TraceVerdict.tla; returns (events, accepted, too long)"""
    n = acc = skipped = 0
    seen = set()
    with open(out_path, "w") as fh:
        for f in sorted(os.listdir(d)):
            if not f.startswith("verdicts-"):
                continue
            for line in open(os.path.join(d, f)):
                e = json.loads(line)
                if e["len"] != len(e["prog"]):
                    skipped += 1
                    continue
                key = (bytes(e["prog"]), e["ok"])
                if key in seen:
                    continue
                seen.add(key)
                whole = e["prog"][:len(e["prog"]) - len(e["prog"]) % 8]
                fh.write(json.dumps({"prog": segs(whole), "nbytes": e["len"], "accept": e["ok"], "msg": e["msg"]}, separators=(",", ":")) + "\n")
                n += 1
                acc += 1 if e["ok"] else 0
    return n, acc, skipped


def convert_dir(d, out_prefix, chunks=4, engines=False):
    files = sorted(f for f in os.listdir(d) if not f.startswith("verdicts-"))
    aside = {}
    runs = []
    for idx, f in enumerate(files):
        ev, why = convert(os.path.join(d, f), idx, engines)
        if ev is None:
            if why != "other engine":
                aside[why] = aside.get(why, 0) + 1
        else:
            runs.append((f, ev))
    paths = []
    for k in range(chunks):
        p = f"{out_prefix}.{k}.ndjson"
        with open(p, "w") as fh:
            for i, (f, ev) in enumerate(runs):
                if i % chunks == k:
                    for e in ev:
                        fh.write(json.dumps(e, separators=(",", ":")) + "\n")
        paths.append(p)
    return paths, len(runs), aside, sum(len(ev) for _, ev in runs)
