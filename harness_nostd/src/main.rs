//! rv_nostd - the C20 transcript tool linked against rbpf built with default features off.
//! The transcript code is shared with the std harness (../harness/src/transcript.rs).

#[path = "../../harness/src/util.rs"]
#[allow(dead_code)]
mod util;
#[path = "../../harness/src/transcript.rs"]
mod transcript;

fn main() {
    let args: Vec<String> = std::env::args().collect();
    std::panic::set_hook(Box::new(|_| {}));
    std::process::exit(transcript::cmd_transcript(&args[1..]));
}
