-------------------------------- MODULE VmApi --------------------------------
(***************************************************************************)
(* Life cycle of one rbpf VM object over any history of API calls (C10,    *)
(* C12's Ok/Err contract): which program is loaded, which verifier is in   *)
(* force, what has been compiled, which helpers are registered.  Programs  *)
(* are abstract: what matters is which verifiers accept them, what they    *)
(* need (a helper, local calls, a buffer layout) and the value they return *)
(* - Val.  The state is finite, so TLC explores ALL histories.             *)
(*                                                                         *)
(* Programs                                                                *)
(*   "P1" "P2"  return 1 / 2; accepted by every verifier but rejectAll     *)
(*   "P3"       returns 3; refused by the default verifier (an atomic op   *)
(*              with a non-zero immediate, in dead code) and by custom;    *)
(*              accepted by acceptAll                                      *)
(*   "P4"       calls helper 1 and returns its value (6); custom accepts   *)
(*   "P5"       has a local call, returns the caller/callee frame distance *)
(*   "P6"       the same after a leading mov64 r2, 0 (so that a calculator *)
(*              that looks at the program tells the two apart; custom      *)
(*              accepts it)                                                *)
(*   "P7"       returns the first byte of the packet it is run on          *)
(*   "P8"       fixed-metadata VM: returns data_end - data read from the   *)
(*              slots of layout "A" (the length of the packet of THIS      *)
(*              execution, whatever earlier executions were given)         *)
(*   "P9"       fixed-metadata VM: reads the slot of layout "A"            *)
(*   "PX" "PY"  refused by default, custom and rejectAll (never offered    *)
(*              under acceptAll: they are not safe to run); PY is a local  *)
(*              call to far outside the program                            *)
(* Verifiers: "default", "acceptAll", "rejectAll", "custom" (accepts a     *)
(* program iff its first instruction is mov64 rX, imm).                    *)
(* Layouts (fixed-metadata VM only): "A" (0x40,0x50)  "C" (0x48,0x50);     *)
(*   other kinds carry the constant layout "A".                            *)
(***************************************************************************)
EXTENDS Naturals, FiniteSets, Sequences, TLC

CONSTANTS Kind,        \* "raw" | "nodata" | "mbuff" | "fixed"
          Helpers,     \* functions that may be registered under id 1: a subset of {"a", "b"}
          Calcs        \* stack-usage calculators that may be installed: a subset of {"k64", "byprog"}
\* (the two sets are parameters so that the transition cover of the quick tier can be planned over a
\* smaller graph; trace validation always uses the full sets)

\* (programs whose run-time errors would make compiled code fault are only offered to the kinds on
\* which they are error-free: the compiled engines' lack of run-time checks is documented)
Progs     == {"P1", "P2", "P3", "P4", "P5", "P6", "PX", "PY"} \cup (IF Kind = "nodata" THEN {} ELSE {"P7"})
                                                   \cup (IF Kind = "fixed" THEN {"P8", "P9"} ELSE {})
\* "default" is only the initial verifier: the crate does not export it, so it cannot be re-installed
Verifiers == {"acceptAll", "rejectAll", "custom"}
Layouts   == IF Kind = "fixed" THEN {"A", "C"} ELSE {"A"}
\* packets: "pa" (first byte 0x11, 16 bytes), "pb" (0x22, 24 bytes, elsewhere), "pc" (the first 8 bytes
\* of "pa": same start address, other length), "pe" (empty)
Packets   == {"pa", "pb", "pc", "pe"}
PLen(k)   == CASE k = "pa" -> "16" [] k = "pb" -> "24" [] k = "pc" -> "8" [] k = "pe" -> "0"
None      == "none"

Accepts(v, p) ==
  CASE v = "acceptAll" -> p \notin {"PX", "PY"}
    [] v = "rejectAll" -> FALSE
    [] v = "default"   -> p \in {"P1", "P2", "P4", "P5", "P6", "P7", "P8", "P9"}
    [] v = "custom"    -> p \in {"P1", "P2", "P4", "P6"}

VARIABLES loaded,     \* program loaded, or None
          verifier,   \* verifier in force
          jit, cl,    \* program the x86-64 JIT / Cranelift artefact was compiled from, or None
          jitH, clH,  \* the function bound to helper 1 when the artefact was built (compiled code embeds the binding)
          helper,     \* the function registered under id 1: None, "a" (returns 6 for P4) or "b" (returns 8);
                      \* registering again replaces the earlier function
          calc,       \* stack-usage calculator: None, "k64" (always 64) or "byprog" (64 if the program
                      \* starts with mov64 r1, r10 - P5 - else 32); installing again replaces it
          layout,     \* layout in force (fixed-metadata VM)
          last        \* the last call and its result (observation; hidden from the state graph by VIEW)
vars == <<loaded, verifier, jit, cl, jitH, clH, helper, calc, layout, last>>
view == <<loaded, verifier, jit, cl, jitH, clH, helper, calc, layout>>


Obs(op, a, r) == [op |-> op, arg |-> a, res |-> r]

(***************************************************************************)
(* The value a program returns when run (engine e, packet k), or "err".    *)
(* "any" = the specification does not constrain the value (a recorded      *)
(* finding area: frame distance under the x86-64 JIT).                     *)
(***************************************************************************)
\* hreg: the function bound to helper 1 for this execution (the registered one for the interpreter,
\* the one bound at compile time for compiled code); cal: the calculator installed
Frame(p, cal) == CASE cal = None -> "256" [] cal = "k64" -> "64" [] OTHER -> (IF p = "P5" THEN "64" ELSE "32")
Val(p, e, k, hreg, cal, lay) ==
  CASE p = "P1" -> "1"
    [] p = "P2" -> "2"
    [] p = "P3" -> "3"
    [] p = "P4" -> IF hreg = "a" THEN "6" ELSE IF hreg = "b" THEN "8" ELSE "err"
    [] p \in {"P5", "P6"} -> IF e = "jit" THEN "any" ELSE Frame(p, cal)
    [] p = "P7" -> IF Kind = "nodata" THEN "err"
                   ELSE IF k = "pe" THEN (IF e = "interp" THEN "err" ELSE "any")   \* (never run compiled: it would fault)
                   ELSE IF k = "pb" THEN "34" ELSE "17"
    [] p = "P8" -> IF Kind # "fixed" THEN "err" ELSE IF lay = "A" THEN PLen(k) ELSE "any"
    [] p = "P9" -> IF Kind # "fixed" THEN "err"
                   ELSE IF lay = "A" THEN (IF k = "pe" THEN "any" ELSE "pkt") ELSE "0"
    [] OTHER -> "err"

Init == /\ loaded = None /\ verifier = "default" /\ jit = None /\ cl = None /\ jitH = None /\ clH = None
        /\ helper = None /\ calc = None /\ layout = "A"
        /\ last = Obs("new", None, "ok")

\* new(Some(p)) with the default verifier: the VM exists only if p is accepted
NewWith(p) ==
  /\ last.op = "new" /\ last.arg = None /\ loaded = None /\ helper = None /\ calc = None /\ verifier = "default"
  /\ jit = None /\ cl = None
  /\ Accepts("default", p)
  /\ loaded' = p
  /\ last' = Obs("new", p, "ok")
  /\ UNCHANGED <<verifier, jit, cl, jitH, clH, helper, calc, layout>>

\* set_program: verified by the verifier in force; a failure leaves the VM exactly as it was.
\* On success the artefacts of the previous program may be dropped or kept (mechanism left
\* open) - what is NOT open is that they can never run in place of the new program (ExecJit/ExecCl).
SetProgram(p, lay) ==
  /\ ~(verifier = "acceptAll" /\ p \in {"PX", "PY"})
  /\ IF Accepts(verifier, p)
     THEN /\ loaded' = p
          /\ layout' = lay
          /\ jit' \in {None, jit}
          /\ cl' \in {None, cl}
          /\ last' = Obs("set_program", <<p, lay>>, "ok")
          /\ UNCHANGED <<verifier, jitH, clH, helper, calc>>
     ELSE /\ last' = Obs("set_program", <<p, lay>>, "err")
          /\ UNCHANGED <<loaded, verifier, jit, cl, jitH, clH, helper, calc, layout>>

\* set_verifier: the new verifier is run on the loaded program first; failure = no change
SetVerifier(v) ==
  /\ ~(v = "acceptAll" /\ loaded \in {"PX", "PY"})
  /\ IF loaded = None \/ Accepts(v, loaded)
     THEN /\ verifier' = v
          /\ last' = Obs("set_verifier", v, "ok")
          /\ UNCHANGED <<loaded, jit, cl, jitH, clH, helper, calc, layout>>
     ELSE /\ last' = Obs("set_verifier", v, "err")
          /\ UNCHANGED <<loaded, verifier, jit, cl, jitH, clH, helper, calc, layout>>

\* Registering under an id that is already taken replaces the function, and - compiled code embeds
\* the function that was registered when it was built - drops the compiled artefacts: code bound
\* to the earlier function never runs in place of the new one (it has to be compiled again).
RegisterHelper(h) ==
  /\ helper' = h
  /\ last' = Obs("register_helper", h, "ok")
  /\ IF helper # None
     THEN jit' = None /\ cl' = None /\ jitH' = None /\ clH' = None
     ELSE UNCHANGED <<jit, cl, jitH, clH>>
  /\ UNCHANGED <<loaded, verifier, calc, layout>>

SetCalc(c) ==
  /\ calc' = c
  /\ last' = Obs("set_calc", c, "ok")
  /\ UNCHANGED <<loaded, verifier, jit, cl, jitH, clH, helper, layout>>

\* compilation: Err without a program, or when the program calls an unregistered helper;
\* Cranelift refuses local calls
NeedsHelper(p) == p = "P4"
JitCompile ==
  /\ IF loaded = None \/ (NeedsHelper(loaded) /\ helper = None)
     THEN /\ last' = Obs("jit_compile", None, "err")
          /\ jit' \in {jit, None}                          \* a failed compilation may drop the old artefact
          /\ UNCHANGED jitH
     ELSE /\ jit' = loaded /\ jitH' = helper
          /\ last' = Obs("jit_compile", None, "ok")
  /\ UNCHANGED <<loaded, verifier, cl, clH, helper, calc, layout>>

ClCompile ==
  /\ IF loaded = None \/ (NeedsHelper(loaded) /\ helper = None) \/ loaded \in {"P5", "P6"}
     THEN /\ last' = Obs("cl_compile", None, "err")
          /\ cl' \in {cl, None}
          /\ UNCHANGED clH
     ELSE /\ cl' = loaded /\ clH' = helper
          /\ last' = Obs("cl_compile", None, "ok")
  /\ UNCHANGED <<loaded, verifier, jit, jitH, helper, calc, layout>>

\* executions change nothing (apart from bytes a program itself stores, not modelled: no program here stores)
Exec(k) ==
  /\ last' = Obs("exec", k, IF loaded = None THEN "err" ELSE Val(loaded, "interp", k, helper, calc, layout))
  /\ UNCHANGED <<loaded, verifier, jit, cl, jitH, clH, helper, calc, layout>>

\* compiled code: never compiled -> Err; compiled from the loaded program -> its value; compiled
\* from an earlier program (if the implementation kept it) -> Err or the value of the LOADED one
ExecCompiled(op, art, bound, e, k) ==
  /\ \E r \in (IF art = None \/ loaded = None THEN {"err"}
               ELSE IF art = loaded THEN {Val(loaded, e, k, bound, calc, layout)}
               ELSE {"err", Val(loaded, e, k, bound, calc, layout)}) :
        last' = Obs(op, k, r)
  /\ UNCHANGED <<loaded, verifier, jit, cl, jitH, clH, helper, calc, layout>>
ExecJit(k) == ExecCompiled("exec_jit", jit, jitH, "jit", k)
ExecCl(k)  == ExecCompiled("exec_cl", cl, clH, "cl", k)

Next ==
  \/ \E p \in Progs : NewWith(p)
  \/ \E p \in Progs, lay \in Layouts : SetProgram(p, lay)
  \/ \E v \in Verifiers : SetVerifier(v)
  \/ \E h \in Helpers : RegisterHelper(h)
  \/ \E c \in Calcs : SetCalc(c)
  \/ JitCompile \/ ClCompile
  \/ \E k \in Packets : Exec(k) \/ ExecJit(k) \/ ExecCl(k)

Spec == Init /\ [][Next]_vars

(***************************************************************************)
(* Properties of the design (checked on the complete state graph).         *)
(***************************************************************************)
TypeOK == /\ loaded \in Progs \cup {None} /\ verifier \in Verifiers \cup {"default"}
          /\ jit \in Progs \cup {None} /\ cl \in Progs \cup {None}
          /\ helper \in Helpers \cup {None} /\ calc \in Calcs \cup {None} /\ layout \in Layouts
          /\ jitH \in Helpers \cup {None} /\ clH \in Helpers \cup {None}

\* the program that runs is the one most recently loaded successfully: a value observed from any
\* engine is a value of the loaded program
Values(p) == {Val(p, e, k, h, c, lay) : e \in {"interp", "jit", "cl"}, k \in Packets, h \in Helpers \cup {None}, c \in Calcs \cup {None}, lay \in Layouts}
RunsLatestLoaded ==
  last.op \in {"exec", "exec_jit", "exec_cl"} /\ last.res # "err" => loaded # None /\ last.res \in Values(loaded)

\* an execution's result is a function of the program, the helpers/calculator/layout in force and
\* the packet passed in - of nothing else (in particular not of earlier executions)
ResultIsFunctionOfInputs ==
  /\ last.op = "exec" /\ loaded # None => last.res = Val(loaded, "interp", last.arg, helper, calc, layout)
  \* ... also under the compilers: a value returned by compiled code is the value with the helpers
  \* registered NOW (not with those registered when it was compiled)
  /\ last.op = "exec_jit" /\ last.res # "err" => last.res = Val(loaded, "jit", last.arg, helper, calc, layout)
  /\ last.op = "exec_cl" /\ last.res # "err" => last.res = Val(loaded, "cl", last.arg, helper, calc, layout)

\* no program, or nothing compiled: errors
NoProgIsError == last.op \in {"exec", "exec_jit", "exec_cl", "jit_compile", "cl_compile"} /\ loaded = None => last.res = "err"
NotCompiledIsError == (last.op = "exec_jit" /\ jit = None) \/ (last.op = "exec_cl" /\ cl = None) => last.res = "err"

\* an artefact always comes from a program that was loaded
ArtefactsFromLoads == (jit # None \/ cl # None) => loaded # None

\* a failed set_program / set_verifier is a no-op (action property)
FailedCallIsNoOp ==
  [][ (last'.op \in {"set_program", "set_verifier"} /\ last'.res = "err") => UNCHANGED view ]_vars

\* the loaded program was accepted by the verifier in force when it was loaded or installed:
\* it is accepted by the CURRENT verifier (set_verifier re-verifies; set_program verifies)
LoadedWasVerified == loaded # None => Accepts(verifier, loaded)

\* With VIEW view (the observation `last` hidden) TLC evaluates state invariants only on the first
\* state found for each view; InvStep states the same invariants about the post-state of EVERY
\* transition, which covers every reachable combination of abstract state and observation.
Inv == TypeOK /\ RunsLatestLoaded /\ ResultIsFunctionOfInputs /\ NoProgIsError /\ NotCompiledIsError /\ ArtefactsFromLoads /\ LoadedWasVerified
InvStep == [][Inv']_vars
=============================================================================
