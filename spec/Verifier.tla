------------------------------ MODULE Verifier ------------------------------
(***************************************************************************)
(* The default verifier's acceptance predicate, written from the statement *)
(* of C06 as a conjunction of named rules.                                 *)
(*                                                                         *)
(* Programs are run-length encoded so that programs up to the 1,000,000    *)
(* instruction limit can be stated: a program is a sequence of segments    *)
(* [n |-> count, i |-> instruction]; an ordinary program has n = 1         *)
(* everywhere.  A segment with n > 1 repeats a position-independent        *)
(* instruction (not a jump, not a local call, not a wide load or its       *)
(* second half): RepOK.                                                    *)
(*                                                                         *)
(* Instruction indices (pc) are 0-based, as in the implementation and its  *)
(* error messages.                                                         *)
(***************************************************************************)
EXTENDS Isa

MaxInsns == 1000000

Seg(n, i) == [n |-> n, i |-> i]
Flat(p)   == [k \in 1..Len(p) |-> Seg(1, p[k])]          \* sequence of insns -> segments

RECURSIVE PLenTo(_, _)
PLenTo(p, s) == IF s = 0 THEN 0 ELSE p[s].n + PLenTo(p, s-1)     \* insns in segments 1..s
PLen(p) == PLenTo(p, Len(p))

SegStart(p, s) == PLenTo(p, s-1)                                   \* pc of the segment's first insn

\* index of the segment holding pc (0 <= pc < PLen(p))
RECURSIVE SegOfFrom(_, _, _)
SegOfFrom(p, pc, s) == IF pc < p[s].n THEN s ELSE SegOfFrom(p, pc - p[s].n, s+1)
SegOf(p, pc) == SegOfFrom(p, pc, 1)
At(p, pc) == p[SegOf(p, pc)].i

InProg(p, pc) == pc >= 0 /\ pc < PLen(p)

\* the instruction of a repeated segment must mean the same at every position
RepOK(p) == \A s \in 1..Len(p) : p[s].n > 1 =>
               LET o == p[s].i.opc IN
               ~IsJump(o) /\ o # LDDW /\ o # 0 /\ ~(o = CALL /\ p[s].i.src = 1)

\* segment s is the second slot of a wide load (found by the linear scan from pc 0)
RECURSIVE IsSecond(_, _)
IsSecond(p, s) == s > 1 /\ p[s-1].i.opc = LDDW /\ p[s-1].n = 1 /\ ~IsSecond(p, s-1)

\* pc holds a real instruction (not the second slot of a wide load)
RealAt(p, pc) == InProg(p, pc) /\ ~IsSecond(p, SegOf(p, pc))

RealSegs(p) == {s \in 1..Len(p) : ~IsSecond(p, s)}

(***************************************************************************)
(* The rules.  Dev is a set of names of deviations of the pinned commit,   *)
(* used only for negative controls (with Dev = {} the rules are the        *)
(* statement of C06):                                                      *)
(*   "last_any_jmp"   - the last slot only has to be of the JMP class      *)
(*   "lddw_r10"       - a wide load may name r10 as its destination        *)
(*   "call_any_slot"  - a local call may land on a second slot             *)
(***************************************************************************)
R_Len(nbytes) == nbytes > 0 /\ nbytes % 8 = 0 /\ nbytes \div 8 <= MaxInsns

R_Last(p, Dev) ==
  LET last == p[Len(p)].i IN
  IF "last_any_jmp" \in Dev THEN Cls(last.opc) = CLS_JMP
  ELSE ~IsSecond(p, Len(p)) /\ last.opc \in {EXIT, JA}

R_Opcode(p) == \A s \in RealSegs(p) : p[s].i.opc \in Supported

R_Regs(p, Dev) == \A s \in RealSegs(p) :
  LET i == p[s].i IN
  /\ i.src <= 10
  /\ \/ i.dst <= 9
     \/ i.dst = 10 /\ (IsStoreClass(i.opc) \/ (i.opc = LDDW /\ "lddw_r10" \in Dev))

R_Lddw(p) == \A s \in RealSegs(p) : p[s].i.opc = LDDW =>
                s < Len(p) /\ p[s+1].n = 1 /\ p[s+1].i.opc = 0

R_Jump(p) == \A s \in RealSegs(p) : IsJump(p[s].i.opc) =>
  LET t == SegStart(p, s) + 1 + p[s].i.off IN
  /\ p[s].i.off # -1
  /\ InProg(p, t)
  /\ RealAt(p, t)
  /\ At(p, t).opc # 0

R_Call(p, Dev) == \A s \in RealSegs(p) :
  /\ p[s].i.opc # TAIL_CALL
  /\ p[s].i.opc = CALL =>
       /\ p[s].i.src \in {0, 1}
       /\ p[s].i.src = 1 =>
            \* (the displacement is a 32-bit immediate: test the range before adding, so that
            \* no intermediate leaves TLC's 32-bit integers)
            /\ p[s].i.imm >= -(SegStart(p, s) + 1)
            /\ p[s].i.imm <= PLen(p) - SegStart(p, s) - 2
            /\ LET t == SegStart(p, s) + 1 + p[s].i.imm IN
               "call_any_slot" \in Dev \/ (RealAt(p, t) /\ At(p, t).opc # 0)

R_Endian(p) == \A s \in RealSegs(p) : IsEndian(p[s].i.opc) => p[s].i.imm \in {16, 32, 64}

R_Xadd(p) == \A s \in RealSegs(p) : IsXadd(p[s].i.opc) => p[s].i.imm = 0

WellFormedD(p, Dev) ==
  /\ Len(p) > 0 /\ R_Len(8 * PLen(p))
  /\ R_Last(p, Dev) /\ R_Opcode(p) /\ R_Regs(p, Dev) /\ R_Lddw(p)
  /\ R_Jump(p) /\ R_Call(p, Dev) /\ R_Endian(p) /\ R_Xadd(p)

WellFormed(p) == WellFormedD(p, {})

PinnedDeviations == {"last_any_jmp", "lddw_r10", "call_any_slot"}

\* Verdict on a byte string given as its length and the decoded whole instructions
\* (for lengths that are not a multiple of 8 the decoded part is irrelevant).
Verdict(nbytes, p) == R_Len(nbytes) /\ nbytes = 8 * PLen(p) /\ WellFormed(p)

(***************************************************************************)
(* Compilation contract (C08, C12): for a well-formed program, compiling   *)
(* succeeds iff every helper it calls is registered (helper addresses are  *)
(* bound at compile time) and - for Cranelift - it makes no local call.    *)
(***************************************************************************)
HelperIdsUsed(p) == { p[s].i.imm : s \in { x \in RealSegs(p) : p[x].i.opc = CALL /\ p[x].i.src = 0 } }
HasLocalCall(p)  == \E s \in RealSegs(p) : p[s].i.opc = CALL /\ p[s].i.src = 1
CompileOk(p, H, eng) == HelperIdsUsed(p) \subseteq H /\ (eng = "cl" => ~HasLocalCall(p))

\* names of the rules a program violates (evidence / witnesses)
Violated(p) == {r \in {"last", "opcode", "regs", "lddw", "jump", "call", "endian", "xadd", "len"} :
   CASE r = "last"   -> ~R_Last(p, {})
     [] r = "opcode" -> ~R_Opcode(p)
     [] r = "regs"   -> ~R_Regs(p, {})
     [] r = "lddw"   -> ~R_Lddw(p)
     [] r = "jump"   -> ~R_Jump(p)
     [] r = "call"   -> ~R_Call(p, {})
     [] r = "endian" -> ~R_Endian(p)
     [] r = "xadd"   -> ~R_Xadd(p)
     [] r = "len"    -> ~(Len(p) > 0 /\ R_Len(8 * PLen(p)))}
=============================================================================
