CONSTANTS NB = 2 LB = 4
SPECIFICATION Spec
INVARIANT AllOK
CHECK_DEADLOCK FALSE
