----------------------------- MODULE MC_AluSmall ----------------------------
(***************************************************************************)
(* Every ALU / branch-condition operation of Alu.tla, on EVERY operand     *)
(* pair of a small-width word, equals the ISA's mathematical definition    *)
(* (Alu!RefAlu, Alu!RefCond): full-width and half-width forms, shift       *)
(* masks, division and modulo by zero, zero-extension of half results,     *)
(* sign-extended immediates in signed and unsigned comparisons.            *)
(***************************************************************************)
EXTENDS Alu, TLC

VARIABLES a, b
vars == <<a, b>>

Init == a \in Word /\ b = Zero
Next == b = Zero /\ b' \in (Word \ {Zero}) /\ a' = a
Spec == Init /\ [][Next]_vars

na == ToNat(a)
nb == ToNat(b)
HM == 2^HW

ArithOps == {ADD, SUB, MUL, DIV, MOD, LSH, RSH, ARSH, NEG, MOV}
LogicOps == {OR, AND, XOR}
CmpOps   == CondOps \ {J_SET}

FullOK == \A op \in ArithOps : ToNat(AluFull(op, a, b)) = RefAlu(op, W, na, nb)

\* half-width: operate on the low halves, zero-extend; mod by zero keeps the low half
HalfOK == \A op \in ArithOps : \A r \in AluHalf(op, a, b) :
             /\ ToNat(LowHalf(r)) = RefAlu(op, HW, na % HM, nb % HM)
             /\ (op = MOD /\ nb % HM = 0) \/ HighZero(r, HB)
HalfModZero == (nb % HM = 0) => AluHalf(MOD, a, b) = {a, LowHalf(a)}

\* logic: bit-level identities tie and/or/xor to addition (already proved equal to +)
LogicOK == /\ Add(AluFull(AND, a, b), AluFull(OR, a, b)) = Add(a, b)
           /\ Add(AluFull(XOR, a, b), Shl(AluFull(AND, a, b), 1)) = Add(a, b)
           /\ \A op \in LogicOps : AluHalf(op, a, b) = {LowHalf(AluFull(op, a, b))}

CondOK == /\ \A op \in CmpOps : Cond(op, TRUE, a, b)  = RefCond(op, W, na, nb)
          /\ \A op \in CmpOps : Cond(op, FALSE, a, b) = RefCond(op, HW, na % HM, nb % HM)
          /\ Cond(J_SET, TRUE, a, b)  = ~IsZero(BAnd(a, b))
          /\ Cond(J_SET, FALSE, a, b) = ~IsZero(LowHalf(BAnd(a, b)))

\* an immediate is a half-width value sign-extended to the full width, also when the
\* comparison is unsigned: the comparison is against sext(imm) as a natural below 2^W
immw == SExtHalf(LowHalf(b))
nimm == IF (nb % HM) >= HM \div 2 THEN (nb % HM) + M - HM ELSE nb % HM
ImmOK == /\ ToNat(immw) = nimm
         /\ \A op \in CmpOps : Cond(op, TRUE, a, immw) = RefCond(op, W, na, nimm)
         /\ \A op \in ArithOps : ToNat(AluFull(op, a, immw)) = RefAlu(op, W, na, nimm)

EndianOK == /\ ToNat(EndianLE(a, HB)) = na % HM
            /\ EndianLE(a, NB) = a
            /\ EndianBE(EndianBE(a, NB), NB) = a
            /\ EndianBE(EndianBE(a, HB), HB) = LowHalf(a)
            /\ HighZero(EndianBE(a, HB), HB)

AllOK == FullOK /\ HalfOK /\ HalfModZero /\ LogicOK /\ CondOK /\ ImmOK /\ EndianOK
=============================================================================
