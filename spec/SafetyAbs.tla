------------------------------ MODULE SafetyAbs ------------------------------
(***************************************************************************)
(* C05 at the design level, for programs of ANY length: the control-flow   *)
(* machine of MachineCF.tla over an abstract program - each slot reduced   *)
(* to the kind of thing the verifier's rules and the machine's step        *)
(* distinguish, and the target of its jump / local call - never gets stuck *)
(* on a well-formed program.  Proved with TLAPS (inductive invariant Inv). *)
(* MC_SafetyAbs.tla checks with TLC, on every program of the MC_Safety     *)
(* universe, that the abstraction is faithful: Verifier!WellFormed(p)      *)
(* implies WF of Abs(p), and every MachineCF step is a step here.          *)
(*                                                                         *)
(* Kinds: "alu" any straight-line instruction (ALU, byte swap with a valid *)
(* width) - "mem" load / store / atomic add (may fail) - "helper" helper   *)
(* call (may fail) - "lddw" first slot of a wide load - "second" its       *)
(* second slot - "ja" - "jcc" - "callx" local call - "exit" - "ill"        *)
(* anything no instruction semantics applies to (unknown opcode, register  *)
(* out of range, bad byte-swap width, tail call, unknown call kind).       *)
(***************************************************************************)
EXTENDS Integers, TLAPS

VARIABLES N,        \* number of slots                                      } the program: never
          Kind,     \* slot -> kind                                          } changes (variables so
          Tgt       \* slot -> target slot of its jump / local call          } that MC_SafetyAbs can
                    \*         (any integer otherwise)                       } instantiate them)

Kinds == {"alu", "mem", "helper", "lddw", "second", "ja", "jcc", "callx", "exit", "ill"}
MaxDepth == 8

Types == /\ N \in Nat /\ N >= 1
         /\ Kind \in [0..(N-1) -> Kinds]
         /\ Tgt \in [0..(N-1) -> Int]

\* the verifier's rules, as they read on the abstract program
WF == /\ Kind[N-1] \in {"exit", "ja"}                                                        \* last
      /\ \A p \in 0..(N-1) : Kind[p] # "ill"                                                 \* opcode, regs, endian, call kinds
      /\ \A p \in 0..(N-1) : (Kind[p] = "second") <=> (p > 0 /\ Kind[p-1] = "lddw")          \* lddw (and what "second" means)
      /\ \A p \in 0..(N-1) : Kind[p] \in {"ja", "jcc", "callx"} =>                           \* jump, call
                               (Tgt[p] \in 0..(N-1) /\ Kind[Tgt[p]] # "second")

VARIABLES pc, depth, ret, status      \* ret[1..depth]: return addresses
prog == <<N, Kind, Tgt>>
vars == <<N, Kind, Tgt, pc, depth, ret, status>>

Init == Types /\ WF /\ pc = 0 /\ depth = 0 /\ ret \in [1..MaxDepth -> Int] /\ status = "run"

Halt(st) == status' = st /\ UNCHANGED <<pc, depth, ret>>
Goto(t)  == pc' = t /\ UNCHANGED <<depth, ret, status>>

Stuck == \/ pc \notin 0..(N-1)
         \/ Kind[pc] \in {"second", "ill"}
         \/ (Kind[pc] = "lddw" /\ pc + 1 \notin 0..(N-1))

Step ==
  /\ status = "run"
  /\ UNCHANGED prog
  /\ IF Stuck THEN Halt("stuck")
     ELSE IF Kind[pc] = "lddw" THEN Goto(pc + 2)
     ELSE IF Kind[pc] = "ja" THEN Goto(Tgt[pc])
     ELSE IF Kind[pc] = "jcc" THEN Goto(pc + 1) \/ Goto(Tgt[pc])
     ELSE IF Kind[pc] \in {"mem", "helper"} THEN Goto(pc + 1) \/ Halt("err")
     ELSE IF Kind[pc] = "callx" THEN
            IF depth >= MaxDepth THEN Halt("err")
            ELSE /\ depth' = depth + 1
                 /\ ret' = [ret EXCEPT ![depth + 1] = pc + 1]
                 /\ pc' = Tgt[pc]
                 /\ UNCHANGED status
     ELSE IF Kind[pc] = "exit" THEN
            IF depth = 0 THEN Halt("ok")
            ELSE /\ pc' = ret[depth]
                 /\ depth' = depth - 1
                 /\ ret' \in [1..MaxDepth -> Int] /\ \A k \in 1..(depth - 1) : ret'[k] = ret[k]   \* (the popped slot is dead)
                 /\ UNCHANGED status
     ELSE Goto(pc + 1)
Budget == status = "run" /\ Halt("err") /\ UNCHANGED prog
Next == Step \/ Budget
Spec == Init /\ [][Next]_vars

NoStuck == status # "stuck"

\* a slot the machine may be at: inside the program and not a second slot
Real(p) == p \in 0..(N-1) /\ Kind[p] # "second"

Inv == /\ Types /\ WF
       /\ status \in {"run", "ok", "err"}
       /\ depth \in 0..MaxDepth
       /\ ret \in [1..MaxDepth -> Int]
       /\ status = "run" => Real(pc)
       /\ \A k \in 1..depth : ret[k] - 1 \in 0..(N-1) /\ Kind[ret[k] - 1] = "callx"

\* the slot after a slot that is neither the last one's kind nor a wide load is a real slot
LEMMA NextReal == ASSUME Types, WF, NEW p \in 0..(N-1), Kind[p] \notin {"exit", "ja", "lddw"}
                  PROVE  Real(p + 1)
  BY SMTT(30) DEF Types, WF, Real, Kinds

LEMMA AfterLddw == ASSUME Types, WF, NEW p \in 0..(N-1), Kind[p] = "lddw"
                   PROVE  p + 1 \in 0..(N-1) /\ Real(p + 2)
  <1>1. p # N - 1 BY SMTT(30) DEF Types, WF
  <1>2. p + 1 \in 0..(N-1) BY <1>1, SMTT(30) DEF Types
  <1>3. Kind[p + 1] = "second" BY <1>2, SMTT(30) DEF Types, WF
  <1>4. p + 1 # N - 1 BY <1>3, SMTT(30) DEF Types, WF
  <1>5. p + 2 \in 0..(N-1) BY <1>2, <1>4, SMTT(30) DEF Types
  <1>6. Kind[p + 2] # "second" BY <1>5, <1>3, SMTT(30) DEF Types, WF
  <1> QED BY <1>2, <1>5, <1>6 DEF Real

\* Inv is preserved when the program and the frame part are unchanged and the new pc is real (or the run is over)
LEMMA Keep == ASSUME Inv, UNCHANGED prog, UNCHANGED <<depth, ret>>,
                     status' \in {"run", "ok", "err"}, status' = "run" => Real(pc')
              PROVE  Inv'
  BY SMTT(30) DEF Inv, prog, Types, WF, Real

THEOREM Safety == Spec => []NoStuck
  <1>1. Init => Inv
    <2> SUFFICES ASSUME Init PROVE Inv OBVIOUS
    <2>1. Real(0) BY SMTT(30) DEF Init, Types, WF, Real
    <2> QED BY <2>1, SMTT(30) DEF Init, Inv, MaxDepth
  <1>2. Inv /\ [Next]_vars => Inv'
    <2> SUFFICES ASSUME Inv, [Next]_vars PROVE Inv' OBVIOUS
    <2>0. Types /\ WF BY DEF Inv
    <2>1. CASE UNCHANGED vars BY <2>1, Keep DEF vars, prog, Inv
    <2>2. CASE Budget BY <2>2, Keep DEF Budget, Halt, Inv
    <2>3. CASE Step
      <3>0. status = "run" /\ Real(pc) /\ UNCHANGED prog BY <2>3 DEF Step, Inv
      <3>2. pc \in 0..(N-1) BY <3>0 DEF Real
      <3>1. ~Stuck
        <4>1. Kind[pc] # "second" BY <3>0 DEF Real
        <4>2. Kind[pc] # "ill" BY <3>2, <2>0 DEF WF
        <4>3. Kind[pc] = "lddw" => pc + 1 \in 0..(N-1) BY <3>2, <2>0, AfterLddw
        <4> QED BY <3>2, <4>1, <4>2, <4>3 DEF Stuck
      <3>3. CASE Kind[pc] = "lddw"
        <4>1. pc' = pc + 2 /\ UNCHANGED <<depth, ret, status>> BY <2>3, <3>1, <3>3 DEF Step, Goto
        <4>2. Real(pc + 2) BY <3>2, <3>3, <2>0, AfterLddw
        <4> QED BY <4>1, <4>2, <3>0, Keep
      <3>4. CASE Kind[pc] = "ja"
        <4>1. pc' = Tgt[pc] /\ UNCHANGED <<depth, ret, status>> BY <2>3, <3>1, <3>4 DEF Step, Goto
        <4>2. Real(Tgt[pc]) BY <3>2, <3>4, <2>0 DEF WF, Real
        <4> QED BY <4>1, <4>2, <3>0, Keep
      <3>5. CASE Kind[pc] = "jcc"
        <4>1. (pc' = pc + 1 \/ pc' = Tgt[pc]) /\ UNCHANGED <<depth, ret, status>> BY <2>3, <3>1, <3>5 DEF Step, Goto
        <4>2. Real(Tgt[pc]) BY <3>2, <3>5, <2>0 DEF WF, Real
        <4>3. Real(pc + 1) BY <3>2, <3>5, <2>0, NextReal
        <4> QED BY <4>1, <4>2, <4>3, <3>0, Keep
      <3>6. CASE Kind[pc] \in {"mem", "helper"}
        <4>1. \/ pc' = pc + 1 /\ UNCHANGED <<depth, ret, status>>
              \/ status' = "err" /\ UNCHANGED <<pc, depth, ret>>
          BY <2>3, <3>1, <3>6 DEF Step, Goto, Halt
        <4>3. Real(pc + 1) BY <3>2, <3>6, <2>0, NextReal
        <4> QED BY <4>1, <4>3, <3>0, Keep
      <3>7. CASE Kind[pc] = "callx"
        <4>1. CASE depth >= MaxDepth
          <5>1. status' = "err" /\ UNCHANGED <<pc, depth, ret>> BY <2>3, <3>1, <3>7, <4>1 DEF Step, Halt
          <5> QED BY <5>1, <3>0, Keep
        <4>2. CASE ~(depth >= MaxDepth)
          <5>1. /\ depth' = depth + 1 /\ ret' = [ret EXCEPT ![depth + 1] = pc + 1] /\ pc' = Tgt[pc] /\ UNCHANGED status
            BY <2>3, <3>1, <3>7, <4>2 DEF Step
          <5>2. Real(Tgt[pc]) BY <3>2, <3>7, <2>0 DEF WF, Real
          <5>3. depth \in 0..MaxDepth /\ depth + 1 \in 1..MaxDepth BY <4>2, SMTT(30) DEF Inv, MaxDepth
          <5>4. ret' \in [1..MaxDepth -> Int] BY <5>1, <5>3, <3>2, <2>0, SMTT(30) DEF Inv, Types
          <5>5. \A k \in 1..(depth + 1) : ret'[k] - 1 \in 0..(N-1) /\ Kind[ret'[k] - 1] = "callx"
            BY <5>1, <5>3, <3>2, <3>7, <2>0, SMTT(30) DEF Inv, MaxDepth, Types
          <5> QED BY <5>1, <5>2, <5>3, <5>4, <5>5, <3>0, SMTT(30) DEF Inv, Real, MaxDepth, prog, Types, WF
        <4> QED BY <4>1, <4>2
      <3>8. CASE Kind[pc] = "exit"
        <4>1. CASE depth = 0
          <5>1. status' = "ok" /\ UNCHANGED <<pc, depth, ret>> BY <2>3, <3>1, <3>8, <4>1 DEF Step, Halt
          <5> QED BY <5>1, <3>0, Keep
        <4>2. CASE depth # 0
          <5>1. /\ pc' = ret[depth] /\ depth' = depth - 1 /\ UNCHANGED status
                /\ ret' \in [1..MaxDepth -> Int] /\ \A k \in 1..(depth - 1) : ret'[k] = ret[k]
            BY <2>3, <3>1, <3>8, <4>2 DEF Step
          <5>2. depth \in 1..MaxDepth BY <4>2, SMTT(30) DEF Inv, MaxDepth
          <5>3. ret[depth] - 1 \in 0..(N-1) /\ Kind[ret[depth] - 1] = "callx" BY <5>2 DEF Inv
          <5>4. Real(ret[depth])
            <6>1. Real((ret[depth] - 1) + 1) BY <5>3, <2>0, NextReal
            <6>2. ret[depth] \in Int BY <5>2 DEF Inv
            <6> QED BY <6>1, <6>2, SMTT(30)
          <5>5. \A k \in 1..(depth - 1) : ret'[k] - 1 \in 0..(N-1) /\ Kind[ret'[k] - 1] = "callx"
            BY <5>1, <5>2, SMTT(30) DEF Inv, MaxDepth
          <5> QED BY <5>1, <5>2, <5>4, <5>5, <3>0, SMTT(30) DEF Inv, Real, MaxDepth, prog, Types, WF
        <4> QED BY <4>1, <4>2
      <3>9. CASE Kind[pc] = "alu"
        <4>1. pc' = pc + 1 /\ UNCHANGED <<depth, ret, status>> BY <2>3, <3>1, <3>9 DEF Step, Goto
        <4>2. Real(pc + 1) BY <3>2, <3>9, <2>0, NextReal
        <4> QED BY <4>1, <4>2, <3>0, Keep
      <3>10. Kind[pc] \in Kinds BY <3>2, <2>0 DEF Types
      <3>11. Kind[pc] # "second" /\ Kind[pc] # "ill" BY <3>0, <3>2, <2>0 DEF Real, WF
      <3> QED BY <3>3, <3>4, <3>5, <3>6, <3>7, <3>8, <3>9, <3>10, <3>11 DEF Kinds
    <2> QED BY <2>1, <2>2, <2>3 DEF Next
  <1>3. Inv => NoStuck BY DEF Inv, NoStuck
  <1> QED BY <1>1, <1>2, <1>3, PTL DEF Spec
=============================================================================
