--------------------------------- MODULE Xadd --------------------------------
(***************************************************************************)
(* C18, design level: N concurrent executions each perform K atomic adds   *)
(* of their own addend on one shared word that has a neighbour word on     *)
(* each side.  Algorithm "atomic": the read-modify-write is one step (what *)
(* `lock add` / fetch_add / atomic_rmw provide).  Deviations, used as      *)
(* negative controls only: "split" (read, then write: two steps) and       *)
(* "wide" (the add is carried out on the double-width cell, so a carry     *)
(* leaks into the neighbour).  TLC explores all interleavings.             *)
(***************************************************************************)
EXTENDS Naturals, FiniteSets, Sequences, TLC

CONSTANTS N,          \* processes
          K,          \* adds per process
          Bits,       \* width of the word in bits (small)
          Algo        \* "atomic" | "split" | "wide"

M == 2^Bits
Procs == 1..N
Addend(p) == (M - 1) - (p - 1)          \* large addends: every add wraps around

VARIABLES left, word, right,  \* the shared word and its neighbours
          done,               \* adds completed per process
          tmp, phase          \* split algorithm: value read, "idle" | "read"
vars == <<left, word, right, done, tmp, phase>>

Init0 == 3
Init == /\ left = 5 /\ word = Init0 /\ right = 6
        /\ done = [p \in Procs |-> 0]
        /\ tmp = [p \in Procs |-> 0] /\ phase = [p \in Procs |-> "idle"]

AtomicAdd(p) ==
  /\ Algo = "atomic" /\ done[p] < K
  /\ word' = (word + Addend(p)) % M
  /\ done' = [done EXCEPT ![p] = @ + 1]
  /\ UNCHANGED <<left, right, tmp, phase>>

WideAdd(p) ==      \* the addend is added to the cell <<word, right>> taken as one number
  /\ Algo = "wide" /\ done[p] < K
  /\ LET v == word + M * right + Addend(p) IN
     /\ word' = v % M
     /\ right' = (v \div M) % M
  /\ done' = [done EXCEPT ![p] = @ + 1]
  /\ UNCHANGED <<left, tmp, phase>>

SplitRead(p) ==
  /\ Algo = "split" /\ done[p] < K /\ phase[p] = "idle"
  /\ tmp' = [tmp EXCEPT ![p] = word] /\ phase' = [phase EXCEPT ![p] = "read"]
  /\ UNCHANGED <<left, word, right, done>>
SplitWrite(p) ==
  /\ Algo = "split" /\ phase[p] = "read"
  /\ word' = (tmp[p] + Addend(p)) % M
  /\ done' = [done EXCEPT ![p] = @ + 1] /\ phase' = [phase EXCEPT ![p] = "idle"]
  /\ UNCHANGED <<left, right, tmp>>

Next == \E p \in Procs : AtomicAdd(p) \/ WideAdd(p) \/ SplitRead(p) \/ SplitWrite(p)
Spec == Init /\ [][Next]_vars /\ WF_vars(Next)

RECURSIVE SumDone(_)
SumDone(p) == IF p = 0 THEN 0 ELSE done[p] * Addend(p) + SumDone(p - 1)

\* at every moment the word holds the initial value plus every completed add: no update is lost
NoLostUpdate == (\A p \in Procs : phase[p] = "idle") => word = (Init0 + SumDone(N)) % M
NeighboursUntouched == left = 5 /\ right = 6
Finished == \A p \in Procs : done[p] = K
Termination == <>Finished
Inv == NoLostUpdate /\ NeighboursUntouched
=============================================================================
