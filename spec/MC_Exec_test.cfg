CONSTANTS NB = 8 LB = 8 Seed = 0 Rate = 64
Families = {"alu", "jmp", "far"}
SPECIFICATION Spec
INVARIANT Inv
CHECK_DEADLOCK FALSE
