------------------------------ MODULE MC_Word64 ------------------------------
(***************************************************************************)
(* Word.tla at the width the machine uses (NB = 8, LB = 8): for boundary   *)
(* words and pseudo-random words, every limb algorithm's result is printed *)
(* and compared by the harness with the host's native 64-bit arithmetic    *)
(* (rv words).  Together with MC_WordSmall (all operand pairs at 6/8 bits, *)
(* against the mathematical definitions) this replaces "uniform in the     *)
(* width" as the reason to trust the arithmetic of the specification.      *)
(***************************************************************************)
EXTENDS Word, TLC, Json, Sequences

CONSTANTS Seed, NR      \* NR pseudo-random words per run

ASSUME NB = 8 /\ LB = 8

W64(a, b, c, d, e, f, g, h) == <<a, b, c, d, e, f, g, h>>
Bnd == << W64(0,0,0,0,0,0,0,0), W64(1,0,0,0,0,0,0,0), W64(2,0,0,0,0,0,0,0), W64(31,0,0,0,0,0,0,0),
          W64(32,0,0,0,0,0,0,0), W64(63,0,0,0,0,0,0,0), W64(64,0,0,0,0,0,0,0), W64(255,0,0,0,0,0,0,0),
          W64(0,1,0,0,0,0,0,0), W64(255,255,255,127,0,0,0,0), W64(0,0,0,128,0,0,0,0),
          W64(255,255,255,255,0,0,0,0), W64(0,0,0,0,1,0,0,0), W64(255,255,255,255,255,255,255,127),
          W64(0,0,0,0,0,0,0,128), W64(255,255,255,255,255,255,255,255), W64(254,255,255,255,255,255,255,255),
          W64(0,0,0,0,255,255,255,255), W64(1,0,0,0,0,0,0,128), W64(85,85,85,85,170,170,170,170) >>

\* pseudo-random words; sparse ones too (high limbs zero) so that small divisors occur
Rnd(k) == LET top == 1 + ((k * 5 + Seed) % 8)
          IN [j \in 1..8 |-> IF j > top THEN 0
                             ELSE (k * 167 + j * 59 + (k \div 7) * j * 31 + Seed * 13 + k * k * j + j * j * 7) % 256] \o <<>>
Ops == [k \in 1..(Len(Bnd) + NR) |-> IF k <= Len(Bnd) THEN Bnd[k] ELSE Rnd(k - Len(Bnd))]
NOps == Len(Ops)

VARIABLES ia, ib
vars == <<ia, ib>>
Init == ia \in 1..NOps /\ ib = 0
Next == ib = 0 /\ ib' \in 1..NOps /\ ia' = ia
Spec == Init /\ [][Next]_vars

Emit == ib > 0 =>
  LET a == Ops[ia]
      b == Ops[ib]
      s == ShAmt(b, 64)
      dm == IF IsZero(b) THEN <<Zero, Zero>> ELSE DivMod(a, b)
  IN PrintT("REPLAY " \o ToJson(
       [a |-> a, b |-> b, add |-> Add(a, b), sub |-> Sub(a, b), neg |-> Neg(a), mul |-> Mul(a, b),
        div |-> dm[1], mod |-> dm[2], band |-> BAnd(a, b), bor |-> BOr(a, b), bxor |-> BXor(a, b), bnot |-> BNot(a),
        shl |-> Shl(a, s), shr |-> Shr(a, s), sar |-> Sar(a, s), sh |-> s, sh32 |-> ShAmt(b, 32),
        cmp |-> Cmp(a, b), scmp |-> SCmp(a, b), carry |-> CarryOut(a, b, 0),
        low |-> LowHalf(a), sext |-> SExtHalf(a), sext16 |-> SExtLimbs(LowLimbs(a, 2), 2),
        swap2 |-> SwapLimbs(a, 2), swap4 |-> SwapLimbs(a, 4), swap8 |-> SwapLimbs(a, 8),
        top |-> TopBit(a), zero |-> IsZero(a)]))
=============================================================================
