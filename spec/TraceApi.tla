------------------------------ MODULE TraceApi ------------------------------
(***************************************************************************)
(* Trace validation of API histories (C10): every call the harness made on *)
(* a real VM object - with its result - must be a step of VmApi.  The      *)
(* specification is non-deterministic where the statement is silent (an    *)
(* implementation may keep or drop compiled code on set_program); TLC      *)
(* tracks every specification state consistent with what was observed.     *)
(* Events:  new   {arg: program or "none", res}   - a fresh VM object      *)
(*          call  {op, arg, res}                                           *)
(***************************************************************************)
EXTENDS VmApi, Json, IOUtils, TLCExt

Rec == ndJsonDeserialize(IOEnv.TRACE)
N == Len(Rec)
VARIABLE l
tvars == <<vars, l>>

Ev == Rec[l]
\* an observed result matches a specified one ("any": unconstrained by the specification)
Match(spec, obs) == spec = "any" \/ spec = obs

Fresh == /\ loaded' = None /\ verifier' = "default" /\ jit' = None /\ cl' = None /\ jitH' = None /\ clH' = None
         /\ helper' = None /\ calc' = None /\ layout' = "A"

TraceNew ==
  /\ l <= N /\ Ev.e = "new"
  /\ IF Ev.arg = "none" THEN Ev.res = "ok" /\ Fresh /\ last' = Obs("new", None, "ok")
     ELSE IF Accepts("default", Ev.arg)
          THEN /\ Ev.res = "ok"
               /\ loaded' = Ev.arg /\ verifier' = "default" /\ jit' = None /\ cl' = None /\ jitH' = None /\ clH' = None
               /\ helper' = None /\ calc' = None /\ layout' = "A"
               /\ last' = Obs("new", Ev.arg, "ok")
          ELSE \* refused: no VM object; the next event must be another "new"
               /\ Ev.res = "err" /\ Fresh /\ last' = Obs("new", Ev.arg, "err")
  /\ l' = l + 1

NoVm == last.op = "new" /\ last.res = "err"

TraceCall ==
  /\ l <= N /\ Ev.e = "call" /\ ~NoVm
  /\ CASE Ev.op = "set_program"     -> SetProgram(Ev.arg[1], Ev.arg[2])
       [] Ev.op = "set_verifier"    -> SetVerifier(Ev.arg)
       [] Ev.op = "register_helper" -> RegisterHelper(Ev.arg)
       [] Ev.op = "set_calc"        -> SetCalc(Ev.arg)
       [] Ev.op = "jit_compile"     -> JitCompile
       [] Ev.op = "cl_compile"      -> ClCompile
       [] Ev.op = "exec"            -> Exec(Ev.arg)
       [] Ev.op = "exec_jit"        -> ExecJit(Ev.arg)
       [] Ev.op = "exec_cl"         -> ExecCl(Ev.arg)
  /\ Match(last'.res, Ev.res)
  /\ l' = l + 1

TraceInit == Init /\ l = 1 /\ TLCSet(1, 1)
TraceNext == TraceNew \/ TraceCall
TraceSpec == TraceInit /\ [][TraceNext]_tvars

Mark == IF l > TLCGet(1) THEN TLCSet(1, l) ELSE TRUE
TraceAccepted ==
  IF TLCGet(1) = N + 1 THEN PrintT(<<"TRACE-ACCEPTED", N>>)
  ELSE PrintT(<<"TRACE-REJECTED", TLCGet(1), N>>) /\ FALSE
TraceInv == Mark /\ (NoVm \/ (TypeOK /\ ArtefactsFromLoads /\ LoadedWasVerified))
=============================================================================
