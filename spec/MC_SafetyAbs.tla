---------------------------- MODULE MC_SafetyAbs -----------------------------
(***************************************************************************)
(* Binds the unbounded proof of SafetyAbs.tla (TLAPS: a well-formed        *)
(* abstract program never gets stuck, for any length) to the specification *)
(* the implementation is checked against: for every program of the         *)
(* MC_Safety universe that Verifier!WellFormed accepts, TLC checks that    *)
(*   - Abs(p) - slot kinds and targets read off the instructions - is      *)
(*     well typed and well formed in the sense of SafetyAbs (SA!Init), and *)
(*   - every step of MachineCF is a step of SafetyAbs (SA!Next),           *)
(* i.e. MachineCF refines SafetyAbs under Abs.  A stuck MachineCF state    *)
(* maps to a stuck SafetyAbs state, which the proof excludes.              *)
(***************************************************************************)
EXTENDS MC_Safety

\* one-instruction segments only (the universe of MC_Safety)
InsnAt(p, k) == p[k + 1].i

AbsKind(p) ==
  [k \in 0..(PLen(p) - 1) |->
     IF IsSecond(p, k + 1) THEN "second"
     ELSE LET i == InsnAt(p, k)
              o == i.opc
          IN IF o \notin Supported \/ ~CFRegsOK(i) \/ (IsEndian(o) /\ i.imm \notin {16, 32, 64}) THEN "ill"
             ELSE IF o = LDDW THEN "lddw"
             ELSE IF o = JA THEN "ja"
             ELSE IF IsCondJmp(o) \/ IsCondJmp32(o) THEN "jcc"
             ELSE IF IsLdx(o) \/ IsLdAbs(o) \/ IsLdInd(o) \/ IsSt(o) \/ IsStx(o) \/ IsXadd(o) THEN "mem"
             ELSE IF o = CALL /\ i.src = 1 THEN "callx"
             ELSE IF o = CALL THEN "helper"         \* (a call of unknown kind only fails: "may fail" covers it)
             ELSE IF o = EXIT THEN "exit"
             ELSE "alu"]

AbsTgt(p) ==
  [k \in 0..(PLen(p) - 1) |->
     LET i == InsnAt(p, k) IN
     IF i.opc = CALL THEN k + 1 + i.imm ELSE k + 1 + i.off]

PadStack == [k \in 1..8 |-> IF k <= Len(cfstack) THEN cfstack[k] ELSE 0]

SA == INSTANCE SafetyAbs WITH N <- PLen(cfprog), Kind <- AbsKind(cfprog), Tgt <- AbsTgt(cfprog),
                              pc <- cfpc, depth <- Len(cfstack), ret <- PadStack, status <- cfstatus

\* only accepted programs are of interest here
InitWF == \E f \in Progs : tmpl = f /\ Accepted(ProgOf(f)) /\ CFInit(ProgOf(f))     \* (Dev = {}: Verifier!WellFormed)
SpecWF == InitWF /\ [][Next]_vars

Refines == SA!Spec
=============================================================================
