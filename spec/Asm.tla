--------------------------------- MODULE Asm ---------------------------------
(***************************************************************************)
(* The assembler as a function from abstract syntax to bytes (C13, C14).   *)
(*                                                                         *)
(* Abstract syntax (what the documented text denotes):                     *)
(*   instruction  [mn |-> mnemonic string, ops |-> <<operand, ...>>]       *)
(*   operand      [k |-> "reg", n |-> literal]                             *)
(*                [k |-> "int", v |-> literal]                             *)
(*                [k |-> "mem", n |-> literal, off |-> literal or NoLit]   *)
(*   literal      [sign |-> "" | "+" | "-", hex |-> BOOLEAN,               *)
(*                 digs |-> <<d1, ..., dn>>]   digits, most significant    *)
(*                 first, each 0..9 (or 0..15 when hex)                    *)
(* The only concrete-syntax step (tokens -> text) is done by the harness's *)
(* renderer: "mn op, op" with registers "r<digits>", integers              *)
(* "<sign>[0x]<digits>", memory "[r<digits><signed literal>]".             *)
(*                                                                         *)
(* AsmInsn gives, for one instruction, either [ok |-> TRUE, slots |-> ..]  *)
(* (one instruction record, two for lddw) or [ok |-> FALSE].  Assemble of  *)
(* a sequence fails as a whole if any instruction fails.                   *)
(***************************************************************************)
EXTENDS Word, Isa

ASSUME NB = 8 /\ LB = 8

NoLit == [sign |-> "", hex |-> FALSE, digs |-> <<>>]
Lit(sg, hx, ds) == [sign |-> sg, hex |-> hx, digs |-> ds]
Reg(n)      == [k |-> "reg", n |-> n]
IntOp(v)    == [k |-> "int", v |-> v]
Mem(n, off) == [k |-> "mem", n |-> n, off |-> off]

(***************************************************************************)
(* Numeric literals.  A magnitude is accumulated in a 64-bit word with     *)
(* overflow detection; the result is the two's-complement i64 the literal  *)
(* denotes, or "err" when it does not denote one:                          *)
(*   decimal: |value| must fit i64 after the sign is applied               *)
(*   hex:     the digits give a 64-bit pattern (more than 64 significant   *)
(*            bits is an error); a '-' negates it modulo 2^64              *)
(***************************************************************************)
MulSmallOvf(a, m) ==      \* a * m (m < 256) with overflow flag: <<product mod 2^64, overflowed>>
  LET s[k \in 0..NB] == IF k = 0 THEN 0 ELSE a[k] * m + (s[k-1] \div B)
  IN  << Tup([k \in 1..NB |-> s[k] % B]), s[NB] \div B # 0 >>

\* acc = <<word, ok>>
DecStep(acc, d) ==
  IF ~acc[2] THEN acc
  ELSE LET p == MulSmallOvf(acc[1], 10)
           q == Add(p[1], FromNat(d))
       IN  << q, ~p[2] /\ CarryOut(p[1], FromNat(d), 0) = 0 >>
HexStep(acc, d) ==
  IF ~acc[2] THEN acc
  ELSE LET p == MulSmallOvf(acc[1], 16) IN << Add(p[1], FromNat(d)), ~p[2] >>

LOCAL INSTANCE SequencesExt
Magnitude(l) == IF l.hex THEN FoldLeft(HexStep, <<Zero, TRUE>>, l.digs) ELSE FoldLeft(DecStep, <<Zero, TRUE>>, l.digs)

MinI64 == Tup([i \in 1..NB |-> IF i = NB THEN 128 ELSE 0])

\* [ok, v]: the i64 value as a word
LitValue(l) ==
  LET m == Magnitude(l) IN
  IF Len(l.digs) = 0 \/ ~m[2] THEN [ok |-> FALSE, v |-> Zero]
  ELSE IF l.hex THEN [ok |-> TRUE, v |-> IF l.sign = "-" THEN Neg(m[1]) ELSE m[1]]
  ELSE IF l.sign = "-"
       THEN (IF Cmp(m[1], MinI64) <= 0 THEN [ok |-> TRUE, v |-> Neg(m[1])] ELSE [ok |-> FALSE, v |-> Zero])
       ELSE (IF TopBit(m[1]) = 0 THEN [ok |-> TRUE, v |-> m[1]] ELSE [ok |-> FALSE, v |-> Zero])

\* register numbers: unsigned decimal, any number of digits, must fit i64 to parse at all
RegValue(l) ==
  LET m == Magnitude([l EXCEPT !.hex = FALSE]) IN
  IF Len(l.digs) = 0 \/ ~m[2] \/ TopBit(m[1]) = 1 THEN [ok |-> FALSE, n |-> 0]
  ELSE IF HighZero(m[1], 1) THEN [ok |-> TRUE, n |-> m[1][1]]          \* < 256
  ELSE [ok |-> TRUE, n |-> 255]                                        \* parses, but no such register

FitsI32(v) == SExtLimbs(LowLimbs(v, 4), 4) = v
FitsI16(v) == SExtLimbs(LowLimbs(v, 2), 2) = v
AsI32(v)   == DecodeImm(v[1], v[2], v[3], v[4])           \* low 32 bits as a signed integer
AsI16(v)   == DecodeOff(v[1], v[2])

(***************************************************************************)
(* The mnemonic table: mnemonic -> <<shape, opcode>>.                      *)
(***************************************************************************)
AluBin == << <<"add", ADD>>, <<"sub", SUB>>, <<"mul", MUL>>, <<"div", DIV>>, <<"or", OR>>, <<"and", AND>>,
             <<"lsh", LSH>>, <<"rsh", RSH>>, <<"mod", MOD>>, <<"xor", XOR>>, <<"mov", MOV>>, <<"arsh", ARSH>> >>
MemSz  == << <<"w", 0>>, <<"h", 8>>, <<"b", 16>>, <<"dw", 24>> >>
JmpCnd == << <<"jeq", J_EQ>>, <<"jgt", J_GT>>, <<"jge", J_GE>>, <<"jlt", J_LT>>, <<"jle", J_LE>>, <<"jset", J_SET>>,
             <<"jne", J_NE>>, <<"jsgt", J_SGT>>, <<"jsge", J_SGE>>, <<"jslt", J_SLT>>, <<"jsle", J_SLE>> >>

Table ==
  { <<"exit", "noop", EXIT>>, <<"ja", "ja", JA>>, <<"call", "call", CALL>>, <<"callx", "callx", CALL>>,
    <<"lddw", "lddw", LDDW>>, <<"neg", "unary", NEG64>>, <<"neg32", "unary", NEG32>>, <<"neg64", "unary", NEG64>> }
  \cup { <<AluBin[k][1], "alu", 16 * AluBin[k][2] + CLS_ALU64>> : k \in 1..Len(AluBin) }
  \cup { <<AluBin[k][1] \o "32", "alu", 16 * AluBin[k][2] + CLS_ALU>> : k \in 1..Len(AluBin) }
  \cup { <<AluBin[k][1] \o "64", "alu", 16 * AluBin[k][2] + CLS_ALU64>> : k \in 1..Len(AluBin) }
  \cup { <<"ldabs" \o MemSz[k][1], "ldabs", 32 + MemSz[k][2]>> : k \in 1..4 }
  \cup { <<"ldind" \o MemSz[k][1], "ldind", 64 + MemSz[k][2]>> : k \in 1..4 }
  \cup { <<"ldx" \o MemSz[k][1], "ldx", 97 + MemSz[k][2]>> : k \in 1..4 }
  \cup { <<"st" \o MemSz[k][1], "st", 98 + MemSz[k][2]>> : k \in 1..4 }
  \cup { <<"stx" \o MemSz[k][1], "stx", 99 + MemSz[k][2]>> : k \in 1..4 }
  \cup { <<JmpCnd[k][1], "jcc", 16 * JmpCnd[k][2] + CLS_JMP>> : k \in 1..Len(JmpCnd) }
  \cup { <<JmpCnd[k][1] \o "32", "jcc", 16 * JmpCnd[k][2] + CLS_JMP32>> : k \in 1..Len(JmpCnd) }
  \cup { <<"be" \o sz[1], "end" \o sz[1], BE>> : sz \in {<<"16", 16>>, <<"32", 32>>, <<"64", 64>>} }
  \cup { <<"le" \o sz[1], "end" \o sz[1], LE>> : sz \in {<<"16", 16>>, <<"32", 32>>, <<"64", 64>>} }

Mnemonics == { t[1] : t \in Table }
Entry(mn) == CHOOSE t \in Table : t[1] = mn

(***************************************************************************)
(* One instruction.                                                        *)
(***************************************************************************)
Fail == [ok |-> FALSE, slots |-> <<>>]
One(i) == [ok |-> TRUE, slots |-> <<i>>]

\* field checks shared by every shape: registers 0..15, offset i16, immediate i32
Build(opc, dst, src, offv, immv) ==
  IF dst > 15 \/ src > 15 \/ ~FitsI16(offv) \/ ~FitsI32(immv) THEN Fail
  ELSE One(I(opc, dst, src, AsI16(offv), AsI32(immv)))

IsReg(o) == o.k = "reg" /\ RegValue(o.n).ok
IsInt(o) == o.k = "int" /\ LitValue(o.v).ok
IsMem(o) == o.k = "mem" /\ RegValue(o.n).ok /\ (o.off = NoLit \/ (o.off.sign # "" /\ LitValue(o.off).ok))
R(o) == RegValue(o.n).n
V(o) == LitValue(o.v).v
MOff(o) == IF o.off = NoLit THEN Zero ELSE LitValue(o.off).v

\* every operand must at least parse (a literal that does not denote an i64 is a parse error)
Parses(ops) == \A k \in 1..Len(ops) : IsReg(ops[k]) \/ IsInt(ops[k]) \/ IsMem(ops[k])

AsmInsn(ins) ==
  IF ins.mn \notin Mnemonics \/ ~Parses(ins.ops) \/ Len(ins.ops) > 3 THEN Fail
  ELSE
  LET e   == Entry(ins.mn)
      sh  == e[2]
      opc == e[3]
      n   == Len(ins.ops)
      a   == ins.ops[1]
      b   == ins.ops[2]
      c   == ins.ops[3]
  IN
  CASE sh = "alu" /\ n = 2 /\ a.k = "reg" /\ b.k = "reg" -> Build(opc + 8, R(a), R(b), Zero, Zero)
    [] sh = "alu" /\ n = 2 /\ a.k = "reg" /\ b.k = "int" -> Build(opc, R(a), 0, Zero, V(b))
    [] sh = "unary" /\ n = 1 /\ a.k = "reg"              -> Build(opc, R(a), 0, Zero, Zero)
    [] sh = "ldabs" /\ n = 1 /\ a.k = "int"              -> Build(opc, 0, 0, Zero, V(a))
    [] sh = "ldind" /\ n = 2 /\ a.k = "reg" /\ b.k = "int" -> Build(opc, 0, R(a), Zero, V(b))
    [] sh = "ldx" /\ n = 2 /\ a.k = "reg" /\ b.k = "mem" -> Build(opc, R(a), R(b), MOff(b), Zero)
    [] sh = "stx" /\ n = 2 /\ a.k = "mem" /\ b.k = "reg" -> Build(opc, R(a), R(b), MOff(a), Zero)
    [] sh = "st"  /\ n = 2 /\ a.k = "mem" /\ b.k = "int" -> Build(opc, R(a), 0, MOff(a), V(b))
    [] sh = "noop" /\ n = 0                               -> Build(opc, 0, 0, Zero, Zero)
    [] sh = "ja" /\ n = 1 /\ a.k = "int"                  -> Build(opc, 0, 0, V(a), Zero)
    [] sh = "jcc" /\ n = 3 /\ a.k = "reg" /\ b.k = "reg" /\ c.k = "int" -> Build(opc + 8, R(a), R(b), V(c), Zero)
    [] sh = "jcc" /\ n = 3 /\ a.k = "reg" /\ b.k = "int" /\ c.k = "int" -> Build(opc, R(a), 0, V(c), V(b))
    [] sh = "call"  /\ n = 1 /\ a.k = "int"               -> Build(opc, 0, 0, Zero, V(a))
    [] sh = "callx" /\ n = 1 /\ a.k = "int"               -> Build(opc, 0, 1, Zero, V(a))
    [] sh \in {"end16", "end32", "end64"} /\ n = 1 /\ a.k = "reg" ->
         Build(opc, R(a), 0, Zero, FromNat(IF sh = "end16" THEN 16 ELSE IF sh = "end32" THEN 32 ELSE 64))
    [] sh = "lddw" /\ n = 2 /\ a.k = "reg" /\ b.k = "int" ->
         IF R(a) > 15 THEN Fail
         ELSE [ok |-> TRUE, slots |-> << I(LDDW, R(a), 0, 0, DecodeImm(V(b)[1], V(b)[2], V(b)[3], V(b)[4])),
                                         I(0, 0, 0, 0, DecodeImm(V(b)[5], V(b)[6], V(b)[7], V(b)[8])) >>]
    [] OTHER -> Fail

\* a whole program: concatenation of the slots, in source order; fails as a whole
RECURSIVE AsmFrom(_, _)
AsmFrom(prog, k) ==
  IF k > Len(prog) THEN [ok |-> TRUE, slots |-> <<>>]
  ELSE LET h == AsmInsn(prog[k]) IN
       IF ~h.ok THEN Fail
       ELSE LET t == AsmFrom(prog, k + 1) IN
            IF ~t.ok THEN Fail ELSE [ok |-> TRUE, slots |-> h.slots \o t.slots]
Assemble(prog) == AsmFrom(prog, 1)

BytesOf(slots) == [k \in 1..(8 * Len(slots)) |-> Encode(slots[((k-1) \div 8) + 1])[((k-1) % 8) + 1]]
=============================================================================
