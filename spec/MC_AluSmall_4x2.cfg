CONSTANTS NB = 4 LB = 2
SPECIFICATION Spec
INVARIANT AllOK
CHECK_DEADLOCK FALSE
