-------------------------------- MODULE Isa ---------------------------------
(***************************************************************************)
(* The eBPF instruction set as rbpf understands it: the 8-byte slot        *)
(* encoding, the opcode space (class / size / mode / source bit /          *)
(* operation), and which fields each opcode uses.                          *)
(*                                                                         *)
(* An instruction is a record [opc, dst, src, off, imm]:                   *)
(*   opc 0..255, dst/src 0..15 (nibbles), off a signed 16-bit integer,     *)
(*   imm a signed 32-bit integer (both are ordinary TLC integers).         *)
(* A program is a sequence of instructions; lddw occupies two slots, the   *)
(* second having opc = 0.                                                  *)
(***************************************************************************)
EXTENDS Integers, Sequences

Insn == [opc : 0..255, dst : 0..15, src : 0..15, off : -32768..32767, imm : Int]

I(o, d, s, f, m) == [opc |-> o, dst |-> d, src |-> s, off |-> f, imm |-> m]

(***************************************************************************)
(* Slot encoding (little-endian).  Bytes are 0..255.                       *)
(***************************************************************************)
\* byte k (0..3) of a signed 32-bit integer in two's complement (divisors spelled out: the proof
\* backends used by IsaProofs.tla do not know exponentiation)
ImmByte(m, k) ==
  LET u3 == IF m >= 0 THEN m \div 16777216 ELSE 255 - ((-(m+1)) \div 16777216)   \* top byte
      lo == IF m >= 0 THEN m % 16777216 ELSE 16777215 - ((-(m+1)) % 16777216)   \* low 24 bits
  IN  IF k = 3 THEN u3 ELSE IF k = 0 THEN lo % 256 ELSE IF k = 1 THEN (lo \div 256) % 256 ELSE (lo \div 65536) % 256

OffByte(f, k) ==
  LET u == IF f >= 0 THEN f ELSE f + 65536
  IN  IF k = 0 THEN u % 256 ELSE (u \div 256) % 256

Encode(i) == << i.opc, i.src * 16 + i.dst,
                OffByte(i.off, 0), OffByte(i.off, 1),
                ImmByte(i.imm, 0), ImmByte(i.imm, 1), ImmByte(i.imm, 2), ImmByte(i.imm, 3) >>

\* reassembled directly as signed values so that no intermediate exceeds 32 bits
DecodeOff(b2, b3) == b2 + 256 * (IF b3 >= 128 THEN b3 - 256 ELSE b3)
DecodeImm(b4, b5, b6, b7) ==
  b4 + 256 * b5 + 65536 * b6 + 16777216 * (IF b7 >= 128 THEN b7 - 256 ELSE b7)

Decode(s) == [opc |-> s[1], dst |-> s[2] % 16, src |-> s[2] \div 16,
              off |-> DecodeOff(s[3], s[4]), imm |-> DecodeImm(s[5], s[6], s[7], s[8])]

(***************************************************************************)
(* Opcode space.                                                           *)
(***************************************************************************)
Cls(o)    == o % 8             \* 0 LD 1 LDX 2 ST 3 STX 4 ALU32 5 JMP 6 JMP32 7 ALU64
SrcBit(o) == (o \div 8) % 2    \* 0 = immediate (K), 1 = register (X)
Op(o)     == o \div 16         \* ALU / JMP operation
SizeBits(o) == (o \div 8) % 4  \* 0 W 1 H 2 B 3 DW
Mode(o)   == o \div 32         \* 0 IMM 1 ABS 2 IND 3 MEM 6 XADD

CLS_LD == 0  CLS_LDX == 1  CLS_ST == 2  CLS_STX == 3
CLS_ALU == 4 CLS_JMP == 5  CLS_JMP32 == 6  CLS_ALU64 == 7

\* access width in bytes
Width(o) == CASE SizeBits(o) = 0 -> 4 [] SizeBits(o) = 1 -> 2 [] SizeBits(o) = 2 -> 1 [] OTHER -> 8

LDDW == 24      \* 0x18
LE   == 212     \* 0xd4
BE   == 220     \* 0xdc
JA   == 5       \* 0x05
CALL == 133     \* 0x85
TAIL_CALL == 141 \* 0x8d
EXIT == 149     \* 0x95
NEG32 == 132    \* 0x84
NEG64 == 135    \* 0x87
XADD_W == 195   \* 0xc3
XADD_DW == 219  \* 0xdb

\* ALU operation numbers
ADD == 0 SUB == 1 MUL == 2 DIV == 3 OR == 4 AND == 5 LSH == 6 RSH == 7
NEG == 8 MOD == 9 XOR == 10 MOV == 11 ARSH == 12 END == 13
\* JMP operation numbers
J_A == 0 J_EQ == 1 J_GT == 2 J_GE == 3 J_SET == 4 J_NE == 5 J_SGT == 6 J_SGE == 7
J_CALL == 8 J_EXIT == 9 J_LT == 10 J_LE == 11 J_SLT == 12 J_SLE == 13

CondOps == {J_EQ, J_GT, J_GE, J_SET, J_NE, J_SGT, J_SGE, J_LT, J_LE, J_SLT, J_SLE}

IsLdAbs(o)  == Cls(o) = CLS_LD  /\ Mode(o) = 1
IsLdInd(o)  == Cls(o) = CLS_LD  /\ Mode(o) = 2
IsLddw(o)   == o = LDDW
IsLdx(o)    == Cls(o) = CLS_LDX /\ Mode(o) = 3
IsSt(o)     == Cls(o) = CLS_ST  /\ Mode(o) = 3
IsStx(o)    == Cls(o) = CLS_STX /\ Mode(o) = 3
IsXadd(o)   == o = XADD_W \/ o = XADD_DW
IsAlu32(o)  == Cls(o) = CLS_ALU   /\ (Op(o) <= ARSH) /\ (Op(o) = NEG => SrcBit(o) = 0)
IsAlu64(o)  == Cls(o) = CLS_ALU64 /\ (Op(o) <= ARSH) /\ (Op(o) = NEG => SrcBit(o) = 0)
IsEndian(o) == o = LE \/ o = BE
IsCondJmp(o)   == Cls(o) = CLS_JMP   /\ Op(o) \in CondOps
IsCondJmp32(o) == Cls(o) = CLS_JMP32 /\ Op(o) \in CondOps
IsJump(o)   == o = JA \/ IsCondJmp(o) \/ IsCondJmp32(o)     \* uses the offset as a branch target

\* the opcodes the default verifier knows (TAIL_CALL is known, and always refused)
Supported == {o \in 0..255 :
                \/ IsLdAbs(o) \/ IsLdInd(o) \/ IsLddw(o) \/ IsLdx(o) \/ IsSt(o) \/ IsStx(o)
                \/ IsXadd(o) \/ IsAlu32(o) \/ IsAlu64(o) \/ IsEndian(o) \/ IsJump(o)
                \/ o = CALL \/ o = EXIT}

\* a store-class opcode: r10 is allowed as the destination (base address) field
IsStoreClass(o) == IsSt(o) \/ IsStx(o) \/ IsXadd(o)

(***************************************************************************)
(* Field usage per opcode: which of dst/src/off/imm carry meaning.  Canon  *)
(* clears the unused ones (C16: "canonical form").                         *)
(***************************************************************************)
UsesDst(o) == ~(IsLdAbs(o) \/ IsLdInd(o) \/ o = JA \/ o = CALL \/ o = EXIT \/ o = TAIL_CALL)
UsesSrc(o) == \/ IsLdInd(o) \/ IsLdx(o) \/ IsStx(o) \/ IsXadd(o) \/ o = CALL      \* (call: the kind)
              \/ ((IsAlu32(o) \/ IsAlu64(o) \/ IsCondJmp(o) \/ IsCondJmp32(o)) /\ SrcBit(o) = 1)
UsesOff(o) == IsLdx(o) \/ IsSt(o) \/ IsStx(o) \/ IsXadd(o) \/ IsJump(o)
UsesImm(o) == \/ IsLdAbs(o) \/ IsLdInd(o) \/ IsLddw(o) \/ IsSt(o) \/ IsEndian(o) \/ o = CALL
              \/ ((IsAlu32(o) \/ IsAlu64(o) \/ IsCondJmp(o) \/ IsCondJmp32(o)) /\ SrcBit(o) = 0
                  /\ Op(o) # NEG)

Canon(i) == [opc |-> i.opc,
             dst |-> IF UsesDst(i.opc) THEN i.dst ELSE 0,
             src |-> IF UsesSrc(i.opc) THEN i.src ELSE 0,
             off |-> IF UsesOff(i.opc) THEN i.off ELSE 0,
             imm |-> IF UsesImm(i.opc) THEN i.imm ELSE 0]

(***************************************************************************)
(* Programs.                                                               *)
(***************************************************************************)
\* p[k] is the second slot of a wide load (k is 1-based)
SecondHalf(p, k) == k > 1 /\ p[k-1].opc = LDDW /\ ~(k > 2 /\ p[k-2].opc = LDDW /\ FALSE)

EncodeProg(p) == [k \in 1..(8 * Len(p)) |-> Encode(p[((k-1) \div 8) + 1])[((k-1) % 8) + 1]]
DecodeProg(bs) == [k \in 1..(Len(bs) \div 8) |-> Decode(SubSeq(bs, 8*(k-1)+1, 8*k))]
=============================================================================
