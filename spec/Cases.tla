-------------------------------- MODULE Cases -------------------------------
(***************************************************************************)
(* Case families: what the bounded models enumerate.  Each family is a     *)
(* TLA+ set expression over boundary values, so "what was explored" is     *)
(* readable here and counted by TLC.  A family member is a case record     *)
(* (Exec.tla).  Sampling for the quick tier keeps the members whose index  *)
(* hash is congruent to Seed modulo Rate (Rate = 1 keeps everything).      *)
(***************************************************************************)
EXTENDS Exec

CONSTANTS Seed, Rate,
          Deep,          \* TRUE in the thorough tier: larger boundary sets
          KnownDevs      \* keys of recorded known findings whose deviation variants are emitted too

Keep(h) == (h + Seed) % Rate = 0

(***************************************************************************)
(* Boundary value sets (as tuples, so that cases can refer to indices).    *)
(***************************************************************************)
W64(b0, b1, b2, b3, b4, b5, b6, b7) == <<b0, b1, b2, b3, b4, b5, b6, b7>>

V64 == << W64(0,0,0,0,0,0,0,0),                   \*  1: 0
          W64(1,0,0,0,0,0,0,0),                   \*  2: 1
          W64(2,0,0,0,0,0,0,0),                   \*  3: 2
          W64(31,0,0,0,0,0,0,0),                  \*  4: 31
          W64(32,0,0,0,0,0,0,0),                  \*  5: 32
          W64(33,0,0,0,0,0,0,0),                  \*  6: 33
          W64(63,0,0,0,0,0,0,0),                  \*  7: 63
          W64(64,0,0,0,0,0,0,0),                  \*  8: 64
          W64(255,255,255,127,0,0,0,0),           \*  9: 2^31-1
          W64(0,0,0,128,0,0,0,0),                 \* 10: 2^31
          W64(255,255,255,255,0,0,0,0),           \* 11: 2^32-1
          W64(0,0,0,0,1,0,0,0),                   \* 12: 2^32
          W64(255,255,255,255,255,255,255,127),   \* 13: 2^63-1
          W64(0,0,0,0,0,0,0,128),                 \* 14: 2^63
          W64(255,255,255,255,255,255,255,255),   \* 15: 2^64-1
          W64(136,119,102,85,68,51,34,17),        \* 16: 0x1122334455667788
          W64(0,0,0,128,255,255,255,255),         \* 17: -2^31 sign-extended
          W64(3,0,0,0,5,0,0,0),                   \* 18: low/high halves differ
          W64(254,255,255,255,255,255,255,255),   \* 19: -2
          W64(7,0,0,0,0,0,0,0) >>                 \* 20: 7

MinI32 == -2147483647 - 1
I32 == << 0, 1, -1, 2, 31, 32, 33, 63, 64, 127, 128, -128, -129,
          32767, 32768, 2147483647, MinI32, 7, -2, 65536 >>

OFFS == << 0, 1, -1, 127, 128, -128, -129, 32767, -32768 >>

ZeroBase == Zero
PktBase(len)  == SubN(W64(0,0,16,0,0,16,0,0), len)     \* ends at 0x0000_1000_0010_0000
MbufBase(len) == SubN(W64(0,0,32,0,0,16,0,0), len)     \* ends at 0x0000_1000_0020_0000
AllowBase(k, len) == SubN(W64(0,0,48 + 16*k,0,0,16,0,0), len)  \* 0x1000_0030_0000 + k*0x10_0000
\* start-aligned variants (first byte on a page boundary)
PktBaseS  == W64(0,0,80,0,0,16,0,0)                     \* 0x0000_1000_0050_0000
MbufBaseS == W64(0,0,96,0,0,16,0,0)                     \* 0x0000_1000_0060_0000

NoFsz == [dflt |-> 256, tab |-> <<>>]

\* a recognisable packet: byte k (1-based) is 16 + k
PatBytes(n) == [k \in 1..n |-> (16 + k) % 256]

BaseCase == [id |-> <<>>, fam |-> "", vm |-> "raw", prog |-> <<>>,
             pkt |-> [base |-> PktBase(0), bytes |-> <<>>],
             mbuf |-> [base |-> MbufBase(0), bytes |-> <<>>],
             fixed |-> <<0, 8>>, allow |-> <<>>, helpers |-> {}, fsz |-> NoFsz,
             calc |-> FALSE, budget |-> 0, dev |-> {}, warm |-> 0]

WithPkt(c, n)  == [c EXCEPT !.pkt  = [base |-> PktBase(n),  bytes |-> PatBytes(n)]]
WithMbuf(c, n) == [c EXCEPT !.mbuf = [base |-> MbufBase(n), bytes |-> [k \in 1..n |-> (128 + k) % 256]]]

(***************************************************************************)
(* Instruction shorthands.                                                 *)
(***************************************************************************)
\* lddw rD, <64-bit word>: two slots
ImmOfBytes(w, k) == DecodeImm(w[k+1], w[k+2], w[k+3], w[k+4])
LddwSlots(d, w) == << I(LDDW, d, 0, 0, ImmOfBytes(w, 0)), I(0, 0, 0, 0, ImmOfBytes(w, 4)) >>
Mov64R(d, s) == I(191, d, s, 0, 0)       \* 0xbf mov64 rd, rs
Mov64I(d, m) == I(183, d, 0, 0, m)       \* 0xb7 mov64 rd, imm
Add64I(d, m) == I(7, d, 0, 0, m)         \* 0x07 add64 rd, imm
ExitI        == I(EXIT, 0, 0, 0, 0)
Add64R(d, s2) == I(15, d, s2, 0, 0)     \* 0x0f add64 rd, rs
JaI(off)     == I(JA, 0, 0, off, 0)
JltI(d, imm, off) == I(165, d, 0, off, imm)       \* 0xa5 jlt rd, imm
JeqI(d, imm, off) == I(21, d, 0, off, imm)        \* 0x15 jeq rd, imm

VmKinds == <<"raw", "nodata", "mbuff", "fixed">>

\* give the case what its VM kind needs: a packet for raw/mbuff/fixed, metadata for mbuff
Dress(c, vm) ==
  LET c1 == [c EXCEPT !.vm = vm] IN
  IF vm = "nodata" THEN c1
  ELSE IF vm = "mbuff" THEN WithMbuf(WithPkt(c1, 16), 32)
  ELSE WithPkt(c1, 16)

(***************************************************************************)
(* Family "alu": every ALU32 / ALU64 / byte-swap opcode on boundary        *)
(* operands and register pairs.                                            *)
(*   lddw rD, A ; lddw rS, B ; <op rD, rS|imm> ; mov64 r0, rD ; exit       *)
(***************************************************************************)
AluOpcodes == {o \in 0..255 : IsAlu32(o) \/ IsAlu64(o)}
RegForms == {o \in AluOpcodes : SrcBit(o) = 1}
ImmForms == {o \in AluOpcodes : SrcBit(o) = 0}

AluProg(o, d, s, A, Bv, imm) ==
  Flat( LddwSlots(d, A)
        \o (IF s <= 9 /\ SrcBit(o) = 1 THEN LddwSlots(s, Bv) ELSE <<>>)
        \o << I(o, d, s, 0, imm) >>
        \o (IF d # 0 THEN << Mov64R(0, d) >> ELSE <<>>)
        \o << ExitI >> )

AluCase(tag, o, d, s, ai, bi, imm, vm) ==
  [Dress(BaseCase, vm) EXCEPT !.id = <<tag, o, d, s, ai, bi, imm>>, !.fam = "alu",
                              !.prog = AluProg(o, d, s, V64[ai], V64[bi], imm)]

RegPairs3 == {<<0, 1>>, <<6, 7>>, <<9, 3>>}
AllRegPairs == {<<d, s>> : d \in 0..9, s \in 0..10}
ValPairs4 == {<<16, 15>>, <<14, 2>>, <<18, 17>>, <<11, 6>>}
NV == Len(V64)
NI == Len(I32)

\* Index tuples <<tag, opcode, dst, src, ai, bi, imm>> are enumerated and sampled first;
\* only the kept ones are expanded into cases.  (Families take a dummy argument because
\* TLC evaluates every constant-level definition without parameters at start-up.)
HashId(id) == LET n(x) == (IF x < 0 THEN -(x+1) ELSE x) % 9973
              IN n(id[2]) + 3 * n(id[3]) + 5 * n(id[4]) + 7 * n(id[5]) + 11 * n(id[6]) + 13 * n(id[7])
Sample(S) == {t \in S : Keep(HashId(t))}

\* A: register forms, all value pairs, 3 register pairs
AluIdxA(u) == { <<"A", o, p[1], p[2], ai, bi, 0>> : o \in RegForms, p \in RegPairs3, ai \in 1..NV, bi \in 1..NV }
\* B: all forms, all register pairs (src field set even when unused), 4 value pairs
AluIdxB(u) == { <<"B", o, p[1], p[2], v[1], v[2], I32[(v[1] % NI) + 1]>> : o \in AluOpcodes, p \in AllRegPairs, v \in ValPairs4 }
\* C: immediate forms, all immediates, all dst values
AluIdxC(u) == { <<"C", o, 3, 0, ai, 1, I32[ii]>> : o \in ImmForms, ai \in 1..NV, ii \in 1..NI }
\* D: byte swaps
AluIdxD(u) == { <<"D", o, p[1], p[2], ai, 1, w>> :
               o \in {LE, BE}, w \in {16, 32, 64}, p \in {<<0, 0>>, <<7, 2>>, <<9, 10>>}, ai \in 1..NV }

\* Z: division and modulo by zero (register and immediate, 32 and 64 bit), every dividend - never sampled away
DivModOps == {o \in AluOpcodes : Op(o) \in {DIV, MOD}}
AluIdxZ(u) == { <<"Z", o, 3, 7, ai, 1, 0>> : o \in DivModOps, ai \in 1..NV }
\* S: shifts by every count around the masks (register and immediate forms)
ShiftOps == {o \in AluOpcodes : Op(o) \in {LSH, RSH, ARSH}}
AluIdxS(u) == { <<"S", o, 2, 6, ai, bi, I32[ii]>> : o \in ShiftOps, ai \in {13, 14, 16, 18}, bi \in 4..8, ii \in 5..9 }

\* P: immediate forms with every power of two, its neighbour below and its negation (strength
\* reduction, mask tricks), on four dividend / multiplicand shapes
Pow2ish == { 2^k : k \in 0..30 } \cup { 2^k - 1 : k \in 1..30 } \cup { -(2^k) : k \in 0..30 } \cup { MinI32, 2147483647 }
AluIdxP(u) == { <<"P", o, 5, 0, ai, 1, m>> : o \in ImmForms, ai \in {13, 14, 16, 18}, m \in Pow2ish }

\* U: the offset field, which no arithmetic instruction uses, set to the values that mean something
\* in later revisions of the instruction set (8, 16, 32: sign-extending moves; 1: signed division)
\* and to the extremes; the source value has the sign bit of that width set and the bits above clear.
\* The verifier accepts every offset here, so every engine must ignore it.
AluOffCase(o, off, ai, bi) ==
  [Dress(BaseCase, "nodata") EXCEPT !.id = <<"U", o, off, ai, bi, 0, 0>>, !.fam = "alu",
     !.prog = Flat( LddwSlots(3, V64[ai]) \o (IF SrcBit(o) = 1 THEN LddwSlots(7, V64[bi]) ELSE <<>>)
                    \o << I(o, 3, 7, off, IF IsEndian(o) THEN 32 ELSE 5) >> \o << Mov64R(0, 3), ExitI >> )]
AluOffCases(u) ==
  { AluOffCase(o, t[1], 18, t[2]) : o \in AluOpcodes \cup {LE, BE}, t \in { <<8, 16>>, <<16, 11>>, <<32, 10>>, <<1, 15>> } } \cup
  { AluOffCase(o, off, 16, 17) : o \in {x \in AluOpcodes \cup {LE, BE} : Keep(x)}, off \in {-1, 32767, -32768, 24, 64} }

\* the fields that loads, stores, neg, ja, call and exit do not use, set to junk (the verifier only
\* checks that register fields are in range): every engine ignores them
UnusedMiscCase(j) ==
  [Dress(BaseCase, "nodata") EXCEPT !.id = <<"UM", j, 0, 0, 0, 0, 0>>, !.fam = "alu", !.helpers = {1},
     !.prog = Flat(<< Mov64I(6, 77),
                      I(123, 10, 6, -8, I32[j]),          \* stxdw [r10-8], r6   imm unused
                      I(121, 0, 10, -8, I32[j + 1]),      \* ldxdw r0, [r10-8]   imm unused
                      I(98, 10, (j % 10) + 1, -16, 5),    \* stw [r10-16], 5     src unused
                      I(97, 2, 10, -16, I32[j + 2]),      \* ldxw r2, [r10-16]   imm unused
                      Add64R(0, 2),
                      I(135, 0, j % 11, 0, I32[j + 3]),   \* neg64 r0            src, imm unused
                      I(5, j % 10, (j + 3) % 11, 1, I32[j]),   \* ja +1          dst, src, imm unused
                      Add64I(0, 1000),
                      Mov64R(6, 0),
                      Mov64I(1, 1), Mov64I(2, 2), Mov64I(3, 3), Mov64I(4, 4), Mov64I(5, 5),
                      I(133, j % 10, 0, OFFS[(j % 9) + 1], 1),     \* call helper 1    dst, off unused
                      Add64R(0, 6),
                      I(133, (j + 5) % 10, 1, OFFS[((j + 4) % 9) + 1], 1),   \* call +1  dst, off unused
                      I(149, j % 10, (j + 7) % 11, 0, I32[j + 4]),  \* exit            dst, src, imm unused
                      Add64I(0, 3),
                      ExitI >>)]
UnusedMiscCases == { UnusedMiscCase(j) : j \in 1..15 }

\* R: destination and source are the SAME register (mov32 r, r truncates; sub r, r and xor r, r clear;
\* div r, r gives 1 or 0): every register form, four registers, two values - never sampled away
AluSameRegCases ==
  { AluCase("R", o, r, r, v, v, 0, "nodata") : o \in RegForms, r \in {0, 3, 6, 9}, v \in {16, 17} }

AluCases(u) ==
  AluOffCases(u) \cup UnusedMiscCases \cup AluSameRegCases \cup
  { AluCase(t[1], t[2], t[3], t[4], t[5], t[6], t[7], "nodata") :
      t \in Sample(AluIdxA(u) \cup AluIdxB(u) \cup AluIdxC(u) \cup AluIdxD(u) \cup AluIdxP(u)) \cup AluIdxZ(u)
            \cup {x \in AluIdxS(u) : Keep(HashId(x) \div 3)} }
  \cup
  \* E: a few on every VM kind (never sampled away)
  { AluCase("E", o, 2, 5, 16, 15, 0, VmKinds[k]) : o \in {15, 12, 31, 191, 188, 103, 108}, k \in 1..4 }

(***************************************************************************)
(* Family "jmp": every conditional branch, both outcomes observable.       *)
(*   lddw rD, A ; lddw rS, B ; jcc rD, rS|imm, +2 ; mov r0, 0x11 ; exit ;  *)
(*   mov r0, 0x22 ; exit                                                   *)
(***************************************************************************)
JmpOpcodes == {o \in 0..255 : IsCondJmp(o) \/ IsCondJmp32(o)}

JmpProg(o, d, s, A, Bv, imm) ==
  Flat( LddwSlots(d, A)
        \o (IF s <= 9 /\ SrcBit(o) = 1 THEN LddwSlots(s, Bv) ELSE <<>>)
        \o << I(o, d, s, 2, imm), Mov64I(0, 17), ExitI, Mov64I(0, 34), ExitI >> )

JmpCase(tag, o, d, s, ai, bi, imm, vm) ==
  [Dress(BaseCase, vm) EXCEPT !.id = <<tag, o, d, s, ai, bi, imm>>, !.fam = "jmp",
                              !.prog = JmpProg(o, d, s, V64[ai], V64[bi], imm)]

JmpRegForms == {x \in JmpOpcodes : SrcBit(x) = 1}
JmpImmForms == {x \in JmpOpcodes : SrcBit(x) = 0}
JmpIdxA(u) == { <<"A", o, p[1], p[2], ai, bi, 0>> : o \in JmpRegForms, p \in RegPairs3, ai \in 1..NV, bi \in 1..NV }
JmpIdxB(u) == { <<"B", o, p[1], p[2], v[1], v[2], I32[(v[1] % NI) + 1]>> : o \in JmpOpcodes, p \in AllRegPairs, v \in ValPairs4 }
JmpIdxC(u) == { <<"C", o, 4, 0, ai, 1, I32[ii]>> : o \in JmpImmForms, ai \in 1..NV, ii \in 1..NI }

\* cases on which the known deviation "jmp_imm_zext" changes the machine's behaviour get a
\* second variant that reproduces it (only when that finding is recorded: KnownDevs)
JmpDevApplies(t) == /\ "jmp_imm_zext" \in KnownDevs
                    /\ Cls(t[2]) = CLS_JMP /\ SrcBit(t[2]) = 0 /\ t[7] < 0
                    /\ Op(t[2]) \in {J_EQ, J_NE, J_GT, J_GE, J_LT, J_LE}

JmpCases(u) ==
  LET S == Sample(JmpIdxA(u) \cup JmpIdxB(u) \cup JmpIdxC(u)) IN
  { JmpCase(t[1], t[2], t[3], t[4], t[5], t[6], t[7], "nodata") : t \in S }
  \cup
  { [JmpCase(t[1], t[2], t[3], t[4], t[5], t[6], t[7], "nodata") EXCEPT !.dev = {"jmp_imm_zext"}] :
      t \in {x \in S : JmpDevApplies(x)} }

(***************************************************************************)
(* Family "far": branches at any position up to the 1,000,000-instruction  *)
(* limit.  A chain of "ja +32767" hops (one per 32768 instructions,        *)
(* separated by filler that must never execute) reaches the last block,    *)
(* where a conditional branch at a high pc is taken forward and a "ja"     *)
(* goes backward.  Run-length segments keep the program small.             *)
(***************************************************************************)
Filler == Add64I(0, 1000)           \* would corrupt r0 if it were ever executed

\* hops h = 0..H-1 at pc 32768*h, each followed by 32767 fillers; then the tail at 32768*H
FarProg(H, tail) ==
  [k \in 1..(2*H) |-> IF k % 2 = 1 THEN Seg(1, JaI(32767)) ELSE Seg(32767, Filler)] \o Flat(tail)

\* tail: mov r0,1 ; jeq r0,1,+1 ; exit(never first) ; add r0,5 ; ja -3 -> exit
FarTail == << Mov64I(0, 1), I(21, 0, 0, 1, 1), ExitI, Add64I(0, 5), JaI(-3) >>

FarCase(H) == [BaseCase EXCEPT !.id = <<"far", H, 0, 0, 0, 0, 0>>, !.fam = "far", !.vm = "nodata",
                               !.prog = FarProg(H, FarTail)]
\* division / modulo by a zero REGISTER at instruction index P (> 16 bits): two hops reach
\* P - 2, then mov r1,0 ; mov r0,7 ; <div|mod r0, r1> ; exit.  div gives 0, mod leaves 7.
FarDivProg(P, o) ==
  << Seg(1, JaI(32767)), Seg(32767, Filler), Seg(1, JaI(P - 2 - 32769)), Seg(P - 2 - 32769, Filler) >>
  \o Flat(<< Mov64I(1, 0), Mov64I(0, 7), I(o, 0, 1, 0, 0), ExitI >>)
FarDivCase(P, o) == [BaseCase EXCEPT !.id = <<"fardiv", P, o, 0, 0, 0, 0>>, !.fam = "far", !.vm = "nodata",
                                      !.prog = FarDivProg(P, o)]
FarCases(u) == { FarCase(H) : H \in {0, 1, 2, 3, 30} } \cup { FarDivCase(P, o) : P \in {65535, 65536, 65537, 65538}, o \in {63, 60, 159, 156} }

(***************************************************************************)
(* Family "mem": loads zero-extend, stores truncate, little-endian, every  *)
(* width; every base/value/destination register and displacement class     *)
(* (the displacements select different x86 encodings in the JIT).           *)
(***************************************************************************)
SizeCode(w) == CASE w = 4 -> 0 [] w = 2 -> 8 [] w = 1 -> 16 [] w = 8 -> 24
LdxI(w, d, s, off)   == I(97 + SizeCode(w), d, s, off, 0)      \* 0x61
StI(w, d, off, imm)  == I(98 + SizeCode(w), d, 0, off, imm)    \* 0x62
StxI(w, d, s, off)   == I(99 + SizeCode(w), d, s, off, 0)      \* 0x63
XaddI(w, d, s, off)  == I(IF w = 4 THEN XADD_W ELSE XADD_DW, d, s, off, 0)
LdAbsI(w, imm)       == I(32 + SizeCode(w), 0, 0, 0, imm)      \* 0x20
LdIndI(w, s, imm)    == I(64 + SizeCode(w), 0, s, 0, imm)      \* 0x40
Widths == {1, 2, 4, 8}

PktLen == 32

\* T6: store through rB at displacement off, load back into rD (packet, all register triples)
MemProgRt(w, Rb, Rv, Rd, off, A) ==
  Flat( LddwSlots(Rb, SubN(AddN(PktBase(PktLen), 8), 0))     \* rB = pkt + 8 ...
        \o << Add64I(Rb, -off) >>                            \* ... - off
        \o LddwSlots(Rv, A)
        \o << StxI(w, Rb, Rv, off), LddwSlots(Rd, AllOnes)[1], LddwSlots(Rd, AllOnes)[2] >>
        \o << LdxI(w, Rd, Rb, off) >>
        \o (IF Rd # 0 THEN << Mov64R(0, Rd) >> ELSE <<>>)
        \o << ExitI >> )

MemIdxRt(u) == { <<"rt", w, Rb, Rv, Rd, OFFS[oi], ai>> :
                   w \in Widths, Rb \in 0..9, Rv \in 0..9, Rd \in 0..9, oi \in 1..Len(OFFS), ai \in {13, 16, 19} }
MemCaseRt(t) ==
  [WithPkt([BaseCase EXCEPT !.vm = "raw"], PktLen) EXCEPT
      !.id = t, !.fam = "mem",
      !.prog = MemProgRt(t[2], t[3], t[4], t[5], t[6], V64[t[7]])]

\* T1: stack round trip through r10 at negative displacements; partial overwrite of a full slot
MemProgStk(w, Rv, Rd, off, k, A) ==
  Flat( << StI(8, 10, off, 1431655765) >>                   \* stdw [r10+off], 0x55555555
        \o LddwSlots(Rv, A)
        \o << StxI(w, 10, Rv, off + k), LdxI(8, Rd, 10, off) >>
        \o (IF Rd # 0 THEN << Mov64R(0, Rd) >> ELSE <<>>)
        \o << ExitI >> )
MemIdxStk(u) == { <<"stk", w, Rv, Rd, off, k, ai>> :
                    w \in Widths, Rv \in {0, 4, 9}, Rd \in {0, 5, 9}, off \in {-8, -16, -128, -136, -512},
                    k \in {0, 1, 3, 4, 7}, ai \in {13, 16, 19} }
MemCaseStk(t) ==
  [BaseCase EXCEPT !.vm = "nodata", !.id = t, !.fam = "mem",
                   !.prog = MemProgStk(t[2], t[3], t[4], t[5], IF t[6] + t[2] <= 8 THEN t[6] ELSE 0, V64[t[7]])]

\* T3: store-immediate truncation / sign extension, visible in the packet
MemProgSti(w, off, imm) == Flat(<< StI(w, 1, off, imm), Mov64I(0, 0), ExitI >>)
MemIdxSti(u) == { <<"sti", w, off, I32[ii], 0, 0, vk>> : w \in Widths, off \in {0, 1, 8, 23}, ii \in 1..NI, vk \in {1, 3} }
MemCaseSti(t) ==
  [Dress(BaseCase, VmKinds[t[7]]) EXCEPT !.id = t, !.fam = "mem", !.prog = MemProgSti(t[2], t[3], t[4])]

\* T5: packet loads (absolute / indirect), every width and register
MemProgAbs(w, imm) == Flat(<< LddwSlots(0, AllOnes)[1], LddwSlots(0, AllOnes)[2], LdAbsI(w, imm), ExitI >>)
MemProgInd(w, Rs, k, imm) == Flat(<< Mov64I(Rs, k), LdIndI(w, Rs, imm), ExitI >>)
MemIdxAbs(u) == { <<"abs", w, imm, 0, 0, 0, vk>> : w \in Widths, imm \in {0, 1, 5, 8}, vk \in {1, 3, 4} }
MemIdxInd(u) == { <<"ind", w, Rs, k, imm, 0, 1>> : w \in Widths, Rs \in 0..9, k \in {0, 3}, imm \in {0, 4} }
MemCaseAbs(t) == [Dress(BaseCase, VmKinds[t[7]]) EXCEPT !.id = t, !.fam = "mem", !.prog = MemProgAbs(t[2], t[3])]
MemCaseInd(t) == [Dress(BaseCase, "raw") EXCEPT !.id = t, !.fam = "mem", !.prog = MemProgInd(t[2], t[3], t[4], t[5])]

\* T2: wide immediates with every bit pattern in either half
MemIdxLddw(u) == { <<"lddw", Rd, ai, 0, 0, 0, 0>> : Rd \in 0..9, ai \in 1..NV }
MemCaseLddw(t) == [BaseCase EXCEPT !.vm = "nodata", !.id = t, !.fam = "mem",
                     !.prog = Flat(LddwSlots(t[2], V64[t[3]]) \o (IF t[2] # 0 THEN << Mov64R(0, t[2]) >> ELSE <<>>) \o << ExitI >>)]

\* atomic add: twice into the same packet word through rB at displacement off (any base / value
\* register, every displacement class), read back; the packet bytes are compared too
MemProgXadd(w, Rb, Rv, off, A) ==
  Flat( LddwSlots(Rb, AddN(PktBase(PktLen), 8)) \o << Add64I(Rb, -off) >>
        \o LddwSlots(Rv, A)
        \o << XaddI(w, Rb, Rv, off), XaddI(w, Rb, Rv, off) >>
        \o (IF Rb # 0 THEN << LdxI(8, 0, Rb, off) >> ELSE << LdxI(8, 0, 0, off) >>)
        \o << ExitI >> )
MemIdxXadd(u) == { <<"xadd", w, Rb, Rv, 0, OFFS[oi], ai>> :
                     w \in {4, 8}, Rb \in {0, 1, 3, 6, 9}, Rv \in {0, 2, 7}, oi \in 1..Len(OFFS), ai \in {13, 16, 19} }
MemCaseXadd(t) ==
  [WithPkt([BaseCase EXCEPT !.vm = "raw"], PktLen) EXCEPT
      !.id = t, !.fam = "mem", !.prog = MemProgXadd(t[2], t[3], t[4], t[6], V64[t[7]])]

HashMem(t) == LET n(x) == (IF x < 0 THEN -(x+1) ELSE x) % 9973
              IN n(t[2]) + 3 * n(t[3]) + 5 * n(t[4]) + 7 * n(t[5]) + 11 * n(t[6]) + 13 * n(t[7])
SampleM(Rs) == {t \in Rs : Keep(HashMem(t))}

MemCases(u) ==
  { MemCaseRt(t) : t \in {x \in SampleM(MemIdxRt(u)) : x[3] # x[4]} } \cup
  { MemCaseStk(t) : t \in SampleM(MemIdxStk(u)) } \cup
  { MemCaseSti(t) : t \in SampleM(MemIdxSti(u)) } \cup
  { MemCaseAbs(t) : t \in MemIdxAbs(u) } \cup
  { MemCaseInd(t) : t \in SampleM(MemIdxInd(u)) } \cup
  { MemCaseLddw(t) : t \in SampleM(MemIdxLddw(u)) } \cup
  { MemCaseXadd(t) : t \in SampleM({x \in MemIdxXadd(u) : x[3] # x[4]}) }

(***************************************************************************)
(* Family "frame": the frame rule - an instruction changes its destination *)
(* and nothing else.  All ten registers hold distinct known values (dst    *)
(* and src the operands under test), one instruction runs, then EVERY      *)
(* register is stored into the packet, whose bytes the harness compares.   *)
(* rB holds the packet pointer (it is neither dst nor src).  Instructions: *)
(* every ALU opcode, byte swaps, packet loads (they write r0).             *)
(***************************************************************************)
FrameVal(r) == W64(16 * r + 1, 16 * r + 2, 16 * r + 3, 16 * r + 4, 16 * r + 5, 16 * r + 6, 16 * r + 7, 128 + r)
FrameLen == 96
\* (on the fixed-metadata VM r1 is the VM's own buffer: the packet pointer is read from its first slot)
FrameProg(ins, d, s, rB, A, Bv, vm) ==
  LET regs == [r \in 0..9 |-> IF r = d THEN A ELSE IF r = s THEN Bv ELSE FrameVal(r)]
      load(r) == IF r = rB THEN <<>> ELSE LddwSlots(r, regs[r])
      save(r) == IF r = rB THEN <<>> ELSE << StxI(8, rB, r, 8 * r) >>
  IN Flat( (IF vm = "fixed" THEN << LdxI(8, rB, 1, 0) >> ELSE IF rB # 1 THEN << Mov64R(rB, 1) >> ELSE <<>>)
           \o load(0) \o load(1) \o load(2) \o load(3) \o load(4) \o load(5) \o load(6) \o load(7) \o load(8) \o load(9)
           \o << ins >>
           \o save(0) \o save(1) \o save(2) \o save(3) \o save(4) \o save(5) \o save(6) \o save(7) \o save(8) \o save(9)
           \o << Mov64I(0, 0), ExitI >> )
FrameBase(d, s) == CHOOSE r \in {6, 9, 1, 7} : r # d /\ r # s
FramePairs == { <<0, 1>>, <<1, 0>>, <<3, 2>>, <<2, 3>>, <<0, 3>>, <<3, 0>>, <<4, 5>>, <<5, 4>>, <<7, 8>>, <<6, 2>>, <<9, 0>>, <<3, 3>>, <<0, 0>> }
FrameVals == { <<16, 15>>, <<14, 1>>, <<18, 7>>, <<11, 13>> }      \* incl. a zero divisor and shift counts
FrameOps == AluOpcodes \cup {LE, BE} \cup {o \in 0..255 : IsLdAbs(o) \/ IsLdInd(o)}
FrameImm(o, k) == IF IsEndian(o) THEN <<16, 32, 64>>[(k % 3) + 1]
                  ELSE IF IsLdAbs(o) THEN 8 * (k % 4)
                  ELSE IF IsLdInd(o) THEN 4
                  ELSE I32[(k % NI) + 1]
FrameIdx(u) == { <<"fr", o, p[1], p[2], v[1], v[2], k>> : o \in FrameOps, p \in FramePairs, v \in FrameVals, k \in {2, 11} }
FrameCaseOf(t) ==
  LET o == t[2]
      d == t[3]
      s == t[4]
      \* packet loads through a register: a small in-bounds index instead of the value pair
      Bv == IF IsLdInd(o) THEN FromNat(8 * (t[7] % 5)) ELSE V64[t[6]]
      ins == I(o, IF IsLdAbs(o) \/ IsLdInd(o) THEN 0 ELSE d, s, 0, FrameImm(o, t[7]))
      vm == IF t[7] = 11 THEN "fixed" ELSE "raw"          \* half of the cases on each VM kind
  IN [WithPkt([BaseCase EXCEPT !.vm = vm], FrameLen) EXCEPT
        !.id = t, !.fam = "frame", !.prog = FrameProg(ins, d, s, FrameBase(d, s), V64[t[5]], Bv, vm)]
FrameCases(u) == { FrameCaseOf(t) : t \in Sample(FrameIdx(u)) }

(***************************************************************************)
(* Family "bounds" (C02, C11): every access kind and width at every        *)
(* position within 9 bytes of either end of every region, plus null and    *)
(* wrap-around addresses, in several region layouts.                       *)
(*   kind: 1 ldx  2 st  3 stx  4 xadd  5 ldabs  6 ldind                    *)
(*   region: 1 packet  2 metadata  3 stack  4,5 registered ranges  0 none  *)
(***************************************************************************)
BPktLen == 16
BMbufLen == 24
BAllowLen == 12
BMbufLenS == 20

\* layouts: <<vm, packet length, number of registered ranges, alignment>>; "end": the buffers end on
\* a page boundary (one byte past them faults), "start": they begin on one and have lengths that
\* are 4 modulo 8, so that a naturally aligned 8-byte access can straddle their end
Layouts == << <<"raw", BPktLen, 0, "end">>, <<"raw", 0, 0, "end">>, <<"mbuff", BPktLen, 0, "end">>,
              <<"nodata", 0, 0, "end">>, <<"raw", BPktLen, 2, "end">>, <<"fixed", BPktLen, 0, "end">>,
              <<"raw", 12, 1, "start">>, <<"mbuff", 20, 0, "start">>,
              \* regions shorter than an access: 4-, 2- and 1-byte packets (a wider access at their first byte must be refused)
              <<"raw", 4, 0, "start">>, <<"raw", 2, 0, "end">>, <<"raw", 1, 0, "start">> >>

AllowBaseS(k) == W64(0,0,112 + 16*k,0,0,16,0,0)             \* 0x1000_0070_0000 + k*0x10_0000

LayoutCase(li) ==
  LET Lay  == Layouts[li]
      st == Lay[4] = "start"
      c0 == [BaseCase EXCEPT !.vm = Lay[1]]
      c1 == IF Lay[1] = "nodata" THEN c0
            ELSE IF st THEN [c0 EXCEPT !.pkt = [base |-> PktBaseS, bytes |-> PatBytes(Lay[2])]]
            ELSE WithPkt(c0, Lay[2])
      c2 == IF Lay[1] # "mbuff" THEN c1
            ELSE IF st THEN [c1 EXCEPT !.mbuf = [base |-> MbufBaseS, bytes |-> [k \in 1..BMbufLenS |-> (128 + k) % 256]]]
            ELSE WithMbuf(c1, BMbufLen)
  IN [c2 EXCEPT !.allow = [k \in 1..Lay[3] |-> [base |-> IF st THEN AllowBaseS(k) ELSE AllowBase(k, BAllowLen),
                                                bytes |-> [j \in 1..BAllowLen |-> (64 * k + j) % 256]]]]

\* length of region r in layout li (0 = absent)
RegLen(li, r) ==
  LET Lay == Layouts[li] IN
  CASE r = 1 -> (IF Lay[1] = "nodata" THEN 0 ELSE Lay[2])
    [] r = 2 -> (IF Lay[1] = "mbuff" THEN (IF Lay[4] = "start" THEN BMbufLenS ELSE BMbufLen)
                 ELSE IF Lay[1] = "fixed" THEN 16 ELSE 0)
    [] r = 3 -> StackSize
    [] r \in {4, 5} -> (IF r - 3 <= Lay[3] THEN BAllowLen ELSE 0)

PosSet(len) == IF Deep THEN (-17..8) \cup ((len - 17)..(len + 9)) ELSE (-9..1) \cup ((len - 9)..(len + 1))

\* the access instruction (base register 3, value register 4)
AccInsn(kind, w, off, imm) ==
  CASE kind = 1 -> LdxI(w, 0, 3, off)
    [] kind = 2 -> StI(w, 3, off, imm)
    [] kind = 3 -> StxI(w, 3, 4, off)
    [] kind = 4 -> XaddI(w, 3, 4, off)

\* r3 := (address of byte `pos` of region r) - off, for caller-owned regions (concrete address),
\* the stack (relative to r10) and the fixed VM's internal buffer (relative to r1)
BaseSetup(c, r, pos, off) ==
  LET d == pos - off IN
  IF r = 3 THEN << Mov64R(3, 10), Add64I(3, d - StackSize) >>
  ELSE IF r = 2 /\ c.vm = "fixed" THEN << Mov64R(3, 1), Add64I(3, d) >>
  ELSE LET b == CASE r = 1 -> c.pkt.base [] r = 2 -> c.mbuf.base [] OTHER -> c.allow[r-3].base
           a == IF d >= 0 THEN AddN(b, d) ELSE SubN(b, -d)
       IN LddwSlots(3, a)

BoundsProg(c, kind, w, r, pos, off) ==
  Flat( BaseSetup(c, r, pos, off)
        \o LddwSlots(4, V64[16])
        \o << Mov64I(0, 0), AccInsn(kind, w, off, 305419896), ExitI >> )

BaseOffs == IF Deep THEN {0, 8, -8, 127, -128, 128, 32767, -32768} ELSE {0, 8, -8}
BoundsIdx(u) ==
  UNION { { <<lr[1], kind, w, lr[2], pos, off>> :
              kind \in 1..4, w \in Widths, pos \in PosSet(RegLen(lr[1], lr[2])), off \in BaseOffs } :
          lr \in { x \in (1..Len(Layouts)) \X (1..5) : RegLen(x[1], x[2]) > 0 } }
BoundsOK(t) == /\ RegLen(t[1], t[4]) > 0
               /\ t[5] \in PosSet(RegLen(t[1], t[4]))
               /\ (t[2] = 4 => t[3] \in {4, 8})
HashB(t) == LET n(x) == (IF x < 0 THEN -(x+1) ELSE x) % 9973
            IN n(t[1]) + 3 * n(t[2]) + 5 * n(t[3]) + 7 * n(t[4]) + 11 * n(t[5]) + 13 * n(t[6])

BoundsCaseOf(t) ==
  LET c == LayoutCase(t[1]) IN
  [c EXCEPT !.id = <<"b">> \o t, !.fam = "bounds", !.prog = BoundsProg(c, t[2], t[3], t[4], t[5], t[6])]

\* absolute addresses that belong to no region: null, small, wrap-around
AbsAddrs == << Zero, FromNat(1), FromNat(8), BNot(Zero), BNot(FromNat(1)), BNot(FromNat(7)), BNot(FromNat(8)) >>
AbsCaseOf(li, kind, w, ai) ==
  LET c == LayoutCase(li) IN
  [c EXCEPT !.id = <<"abs", li, kind, w, ai, 0, 0>>, !.fam = "bounds",
            !.prog = Flat(LddwSlots(3, AbsAddrs[ai]) \o LddwSlots(4, V64[16])
                          \o << Mov64I(0, 0), AccInsn(kind, w, 0, 7), ExitI >>)]

\* packet loads: ldabs imm / ldind r3 + imm around the packet's end and far beyond
PktLoadCaseOf(li, ind, w, pos, k) ==
  LET c == LayoutCase(li) IN
  [c EXCEPT !.id = <<"pl", li, ind, w, pos, k, 0>>, !.fam = "bounds",
            !.prog = IF ind = 0 THEN Flat(<< Mov64I(0, 0), LdAbsI(w, pos), ExitI >>)
                     ELSE Flat(<< Mov64I(3, pos - k), LdIndI(w, 3, k), ExitI >>)]
PktLoadIdx(u) == { <<li, ind, w, pos, k>> : li \in {1, 2, 3, 4, 6}, ind \in {0, 1}, w \in Widths,
                     pos \in (0..2) \cup ((BPktLen - 9)..(BPktLen + 1)) \cup {2147483647, MinI32, -1},
                     k \in {0, 4} }
                 \* packets SHORTER than the load (4, 2 and 1 bytes: "length - width" is negative)
                 \cup { <<li, ind, w, pos, 0>> : li \in {9, 10, 11}, ind \in {0, 1}, w \in Widths, pos \in (0..5) \cup {64, 4096} }

\* overlapping registered ranges: an inner range nested in an outer one (same bytes where they
\* overlap; loads only, so that the two images of the shared bytes cannot diverge).  An access
\* inside the outer range is allowed wherever the inner one starts.
NestOuter == 64
NestInner == <<16, 8>>         \* offset and length of the inner range
NestBytes == [k \in 1..NestOuter |-> (k * 3) % 256]
NestedCase(order, w, pos) ==
  LET ob == AllowBaseS(3)
      outer == [base |-> ob, bytes |-> NestBytes]
      inner == [base |-> AddN(ob, NestInner[1]), bytes |-> SubSeq(NestBytes, NestInner[1] + 1, NestInner[1] + NestInner[2])]
      a == IF pos >= 0 THEN AddN(ob, pos) ELSE SubN(ob, -pos)
  IN [BaseCase EXCEPT !.id = <<"nest", order, w, pos, 0, 0, 0>>, !.fam = "bounds", !.vm = "nodata",
                      !.allow = IF order = 1 THEN <<outer, inner>> ELSE <<inner, outer>>,
                      !.prog = Flat(LddwSlots(3, a) \o << LdxI(w, 0, 3, 0), ExitI >>)]
NestedCases == { NestedCase(o, w, pos) : o \in {1, 2}, w \in Widths,
                   pos \in {-1, 0, 8, 9, 12, 15, 16, 17, 20, 23, 24, 25, 32, 56, 57, 60, 63, 64} }

\* stack accesses addressed directly through r10 with a constant offset (what compilers emit, and
\* what an engine may be tempted to check at compile time), at both ends of the stack
DirectInsn(kind, w, off, imm) ==
  CASE kind = 1 -> LdxI(w, 0, 10, off)
    [] kind = 2 -> StI(w, 10, off, imm)
    [] kind = 3 -> StxI(w, 10, 4, off)
    [] kind = 4 -> XaddI(w, 10, 4, off)
DirectCaseOf(li, kind, w, pos) ==
  LET c == LayoutCase(li) IN
  [c EXCEPT !.id = <<"dir", li, kind, w, pos, 0, 0>>, !.fam = "bounds",
            !.prog = Flat(LddwSlots(4, V64[16]) \o << Mov64I(0, 0), DirectInsn(kind, w, pos - StackSize, 305419896), ExitI >>)]
DirectIdx(u) == { <<li, kind, w, pos>> \in ({4, 1} \X (1..4) \X Widths \X PosSet(StackSize)) :
                    /\ (kind = 4 => w \in {4, 8})
                    /\ Keep(li + 3 * kind + 5 * w + 7 * (pos + 20)) }

\* two accesses through the same base register and displacement: a narrow one that fits, then a
\* wider one that sticks out of the region (a check remembered for "this address" must remember
\* its width too); also through r10 directly
PairProg(c, k1, w1, k2, w2, r, pos, off) ==
  Flat( BaseSetup(c, r, pos, off) \o LddwSlots(4, V64[16])
        \o << Mov64I(0, 0), AccInsn(k1, w1, off, 305419896), AccInsn(k2, w2, off, 305419896), ExitI >> )
PairIdx(u) == { <<li, k1, w1, k2, w2, r, d>> \in ({1, 3, 4} \X (1..3) \X {1, 2, 4} \X (1..3) \X {2, 4, 8} \X {1, 2, 3} \X (1..7)) :
                  /\ RegLen(li, r) > 0 /\ w1 < w2 /\ d >= w1 /\ d < w2      \* d = bytes left in the region at the access
                  /\ Keep(li + 3 * k1 + 5 * w1 + 7 * k2 + 11 * w2 + 13 * r + 17 * d) }
PairCaseOf(t) ==
  LET c == LayoutCase(t[1]) IN
  [c EXCEPT !.id = <<"pair">> \o t, !.fam = "bounds",
            !.prog = PairProg(c, t[2], t[3], t[4], t[5], t[6], RegLen(t[1], t[6]) - t[7], 0)]
PairDirect(k1, w1, k2, w2, d) ==
  LET c == LayoutCase(4) IN
  [c EXCEPT !.id = <<"pairdir", k1, w1, k2, w2, d, 0>>, !.fam = "bounds",
            !.prog = Flat(LddwSlots(4, V64[16]) \o << Mov64I(0, 0), DirectInsn(k1, w1, -d, 305419896), DirectInsn(k2, w2, -d, 305419896), ExitI >>)]
PairDirectIdx(u) == { <<k1, w1, k2, w2, d>> \in ((1..3) \X {1, 2, 4} \X (1..3) \X {2, 4, 8} \X (1..7)) :
                        w1 < w2 /\ d >= w1 /\ d < w2 /\ Keep(k1 + 3 * w1 + 5 * k2 + 7 * w2 + 11 * d) }

\* two registered ranges one byte apart: the byte between them belongs to no range
GapCase(w, pos) ==
  LET ob == AllowBaseS(5)
      bytesA == [k \in 1..12 |-> (k * 5) % 256]
      bytesB == [k \in 1..12 |-> (k * 7 + 1) % 256]
      a == AddN(ob, pos)
  IN [BaseCase EXCEPT !.id = <<"gap", w, pos, 0, 0, 0, 0>>, !.fam = "bounds", !.vm = "nodata",
                      !.allow = << [base |-> ob, bytes |-> bytesA], [base |-> AddN(ob, 13), bytes |-> bytesB] >>,
                      !.prog = Flat(LddwSlots(3, a) \o << LdxI(w, 0, 3, 0), ExitI >>)]
GapCases == { GapCase(w, pos) : w \in Widths, pos \in {4, 8, 10, 11, 12, 13, 14, 17, 23, 24} }

\* two registered ranges that overlap in part, registered in either order: every byte of their union
\* stays accessible (an access must lie inside ONE of them)
OverlapCase(order, w, pos) ==
  LET ob == AllowBaseS(6)
      bytes == [k \in 1..32 |-> (k * 9 + 2) % 256]
      lo == [base |-> ob, bytes |-> SubSeq(bytes, 1, 16)]                    \* [0, 16)
      hi == [base |-> AddN(ob, 8), bytes |-> SubSeq(bytes, 9, 32)]           \* [8, 32)
  IN [BaseCase EXCEPT !.id = <<"ovl", order, w, pos, 0, 0, 0>>, !.fam = "bounds", !.vm = "nodata",
                      !.allow = IF order = 1 THEN <<lo, hi>> ELSE <<hi, lo>>,
                      !.prog = Flat(LddwSlots(3, AddN(ob, pos)) \o << LdxI(w, 0, 3, 0), ExitI >>)]
OverlapCases == { OverlapCase(o, w, pos) : o \in {1, 2}, w \in Widths, pos \in {0, 7, 8, 12, 15, 16, 20, 24, 31, 32} }

\* two ranges with a gap between them, and a third one covering both and the gap, registered in
\* every order: the gap is accessible whenever the covering range is registered, whatever was
\* registered before it
CoverCase(order, w, pos) ==
  LET ob == AllowBaseS(7)
      bytes == [k \in 1..24 |-> (k * 11 + 3) % 256]
      lo == [base |-> ob, bytes |-> SubSeq(bytes, 1, 8)]                     \* [0, 8)
      hi == [base |-> AddN(ob, 16), bytes |-> SubSeq(bytes, 17, 24)]         \* [16, 24)
      all == [base |-> ob, bytes |-> bytes]                                   \* [0, 24)
  IN [BaseCase EXCEPT !.id = <<"cover", order, w, pos, 0, 0, 0>>, !.fam = "bounds", !.vm = "nodata",
                      !.allow = CASE order = 1 -> <<lo, hi, all>> [] order = 2 -> <<all, lo, hi>>
                                  [] order = 3 -> <<hi, all, lo>> [] order = 4 -> <<hi, lo, all>>,
                      !.prog = Flat(LddwSlots(3, AddN(ob, pos)) \o << LdxI(w, 0, 3, 0), ExitI >>)]
CoverCases == { CoverCase(o, w, pos) : o \in 1..4, w \in Widths, pos \in {0, 4, 7, 8, 12, 15, 16, 20, 23, 24} }

\* an atomic add whose ADDEND is r10 (the value is an address, outside the claim; whether the access
\* is performed is not), at a base outside every region, with displacements that would be fine for r10
XaddR10Case(w, off) ==
  LET c == LayoutCase(1) IN
  [c EXCEPT !.id = <<"xr10", w, off, 0, 0, 0, 0>>, !.fam = "bounds",
            !.prog = Flat(LddwSlots(3, AddN(c.pkt.base, BPktLen + 40 - off)) \o << Mov64I(0, 0), XaddI(w, 3, 10, off), ExitI >>)]
XaddR10Cases == { XaddR10Case(w, off) : w \in {4, 8}, off \in {-8, -16, -512} }

\* ldind whose 32-bit displacement has its sign bit set and whose index register has an all-ones
\* upper half: displacement zero-extended, the sum wraps modulo 2^64 back into the packet
LdIndWrapCase(w, k) ==
  LET c == LayoutCase(1) IN
  [c EXCEPT !.id = <<"ldw", w, k, 0, 0, 0, 0>>, !.fam = "bounds",
            !.prog = Flat(LddwSlots(3, W64(4 + k, 0, 0, 0, 255, 255, 255, 255)) \o << LdIndI(w, 3, -4) >> \o << ExitI >>)]
LdIndWrapCases == { LdIndWrapCase(w, k) : w \in Widths, k \in {0, 2, 8} }

BoundsCases(u) ==
  NestedCases \cup GapCases \cup OverlapCases \cup CoverCases \cup XaddR10Cases \cup LdIndWrapCases \cup
  { PairCaseOf(t) : t \in PairIdx(u) } \cup
  { PairDirect(t[1], t[2], t[3], t[4], t[5]) : t \in PairDirectIdx(u) } \cup
  { DirectCaseOf(t[1], t[2], t[3], t[4]) : t \in DirectIdx(u) } \cup
  { BoundsCaseOf(t) : t \in {x \in BoundsIdx(u) : BoundsOK(x) /\ Keep(HashB(x))} } \cup
  { AbsCaseOf(t[1], t[2], t[3], t[4]) :
      t \in { <<li, kind, w, ai>> \in ({1, 3, 4} \X (1..4) \X Widths \X (1..Len(AbsAddrs))) :
                kind = 4 => w \in {4, 8} } } \cup
  { PktLoadCaseOf(t[1], t[2], t[3], t[4], t[5]) :
      t \in {x \in PktLoadIdx(u) : (x[2] = 0 => x[5] = 0) /\ (x[4] \notin 0..100 => x[5] = 0)} }
(***************************************************************************)
(* Family "farcall": local calls whose displacement does not fit 16 bits,  *)
(* forward and backward (the call displacement is the 32-bit immediate).   *)
(*   0: callx +N ; 1: exit ; 2: mov r0,77 ; 3: exit ; 4..N: filler ;       *)
(*   N+1: callx -N (-> 2) ; N+2: add r0,1 ; N+3: exit          => r0 = 78  *)
(***************************************************************************)
CallxI(imm) == I(CALL, 0, 1, 0, imm)
CallI(id)   == I(CALL, 0, 0, 0, id)

FarCallProg(N) ==
  Flat(<< CallxI(N), ExitI, Mov64I(0, 77), ExitI >>) \o << Seg(N - 3, Filler) >>
  \o Flat(<< CallxI(-N), Add64I(0, 1), ExitI >>)
\* a call at index 65536: its return address (65537) does not fit 16 bits; cut to 16 bits it would
\* be index 1, the second half of the wide load at 0
FarLandProg == Flat(LddwSlots(7, V64[16])) \o << Seg(65534, Mov64I(3, 3)) >> \o Flat(<< CallxI(1), ExitI, Mov64I(0, 9), ExitI >>)
FarCallCases(u) ==
  { [BaseCase EXCEPT !.id = <<"farland", 0, 0, 0, 0, 0, 0>>, !.fam = "farcall", !.vm = "nodata", !.prog = FarLandProg] } \cup
  { [BaseCase EXCEPT !.id = <<"farcall", N, 0, 0, 0, 0, 0>>, !.fam = "farcall", !.vm = "nodata",
                     !.prog = FarCallProg(N)] : N \in {4, 32767, 32768, 65537, 200001, 999990} }

(***************************************************************************)
(* Family "calls" (C07): chains of nested local calls of depth 0..9, laid  *)
(* out forward (callee after caller) or backward, with frame-size          *)
(* calculators.  Function k (0 = main), non-leaf:                          *)
(*     mov r6,100k+6 ; mov r8,100k+8 ; mov r9,r10 ;                        *)
(*     mov r7,r1 ; sub r7,r10      (k >= 1: caller's r10 - own r10)        *)
(*     stdw [r10-8],100k+1 ; mov r1,r10 ; callx f(k+1) ;                   *)
(*     add r0,r2 ; add r0,r3 ; add r0,r4 ; add r0,r5   (results pass)      *)
(*     ldxdw r2,[r10-8] ; add r0,r2                    (own slot intact)   *)
(*     add r0,r6 ; add r0,r7 ; add r0,r8               (callee-saved)      *)
(*     sub r9,r10 ; add r0,r9                          (r10 restored)      *)
(*     exit                                                                *)
(* leaf:  mov r0,r1 ; sub r0,r10 ; stdw [r10-8],4242 ; ldxdw r2,[r10-8] ;  *)
(*        add r0,r2 ; mov r2..r5,<2,3,4,5> ; mov r6..r9,<1,2,3,4> ; exit   *)
(***************************************************************************)
Sub64R(d, s2) == I(31, d, s2, 0, 0)     \* 0x1f sub64 rd, rs

FnPre(k) == << Mov64I(6, 100*k + 6), Mov64I(8, 100*k + 8), Mov64R(9, 10) >>
            \o (IF k >= 1 THEN << Mov64R(7, 1), Sub64R(7, 10) >> ELSE << Mov64I(7, 7) >>)
            \o << StI(8, 10, -8, 100*k + 1), Mov64R(1, 10) >>
FnPost == << Add64R(0, 2), Add64R(0, 3), Add64R(0, 4), Add64R(0, 5),
             LdxI(8, 2, 10, -8), Add64R(0, 2),
             Add64R(0, 6), Add64R(0, 7), Add64R(0, 8),
             Sub64R(9, 10), Add64R(0, 9), ExitI >>
Leaf(k) == (IF k >= 1 THEN << Mov64R(0, 1), Sub64R(0, 10) >> ELSE << Mov64I(0, 5), Mov64I(1, 0) >>)
           \o << StI(8, 10, -8, 4242), LdxI(8, 2, 10, -8), Add64R(0, 2),
                 Mov64I(2, 2), Mov64I(3, 3), Mov64I(4, 4), Mov64I(5, 5),
                 Mov64I(6, 1), Mov64I(7, 2), Mov64I(8, 3), Mov64I(9, 4), ExitI >>

FnLen(k, D) == IF k = D THEN Len(Leaf(k)) ELSE Len(FnPre(k)) + 1 + Len(FnPost)

\* forward layout: f0 f1 ... fD.  start(k) = sum of lengths before k
RECURSIVE FwdStart(_, _)
FwdStart(k, D) == IF k = 0 THEN 0 ELSE FwdStart(k-1, D) + FnLen(k-1, D)
FwdFn(k, D) == IF k = D THEN Leaf(k)
               ELSE FnPre(k) \o << CallxI(FwdStart(k+1, D) - (FwdStart(k, D) + Len(FnPre(k)) + 1)) >> \o FnPost
RECURSIVE FwdProg(_, _)
FwdProg(k, D) == IF k > D THEN <<>> ELSE FwdFn(k, D) \o FwdProg(k+1, D)

\* backward layout: "ja main" ; fD ... f1 ; f0(main) last.  start(k) for k >= 1 counts from pc 1
RECURSIVE BwdStart(_, _)
BwdStart(k, D) == IF k = D THEN 1 ELSE BwdStart(k+1, D) + FnLen(k+1, D)
BwdFn(k, D) == IF k = D THEN Leaf(k)
               ELSE FnPre(k) \o << CallxI(BwdStart(k+1, D) - (BwdStart(k, D) + Len(FnPre(k)) + 1)) >> \o FnPost
RECURSIVE BwdProg(_, _)
BwdProg(k, D) == IF k < 0 THEN <<>> ELSE BwdFn(k, D) \o BwdProg(k-1, D)

\* frame-size calculators: 0 none; otherwise a table entry per function entry (and a default)
CalcSizes == << 0, 0, 16, 64, 256, 512 >>      \* index 2..6: constant size; 7: 16*(k+1) per entry
FszFor(ci, D, starts) ==
  IF ci = 1 THEN NoFsz
  ELSE IF ci <= 6 THEN [dflt |-> CalcSizes[ci], tab |-> <<>>]
  ELSE [dflt |-> 48, tab |-> [k \in 1..(D+1) |-> << starts[k], 16 * k >>]]

ChainCase(D, dir, ci) ==
  LET prog   == IF dir = 0 THEN FwdProg(0, D) ELSE << JaI(BwdStart(0, D) - 1) >> \o BwdProg(D, D)
      starts == [k \in 1..(D+1) |-> IF dir = 0 THEN FwdStart(k-1, D)
                                   ELSE IF k = 1 THEN 0 ELSE BwdStart(k-1, D)]
  IN [BaseCase EXCEPT !.id = <<"chain", D, dir, ci, 0, 0, 0>>, !.fam = "calls", !.vm = "nodata",
                      !.prog = Flat(prog), !.calc = (ci # 1), !.fsz = FszFor(ci, D, starts)]

\* bounded recursion: r0 = N + (N-1) + ... + 1, depth N+1
RecProg(N) == Flat(<< Mov64I(1, N), CallxI(1), ExitI,
                      I(85, 1, 0, 2, 0), Mov64I(0, 0), ExitI,        \* jne r1, 0, +2
                      Mov64R(6, 1), Add64I(1, -1), CallxI(-6), Add64R(0, 6), ExitI >>)
RecCase(N, ci) == [BaseCase EXCEPT !.id = <<"rec", N, ci, 0, 0, 0, 0>>, !.fam = "calls", !.vm = "nodata",
                                   !.prog = RecProg(N), !.calc = (ci # 1), !.fsz = FszFor(IF ci = 7 THEN 3 ELSE ci, 0, <<0>>)]

\* variants reproducing the recorded x86-64 JIT finding (the callee shares the caller's r10)
WithJitDev(S) == S \cup (IF "jit_r10" \in KnownDevs THEN { [c EXCEPT !.dev = {"jit_r10"}] : c \in S } ELSE {})

\* a local call whose displacement equals the id of a registered helper must still be a local call
\* (and be refused by Cranelift): callx +k ; exit ; k-1 fillers ; mov r0, 42 ; exit, helpers = {k}
LocalVsHelper(k) ==
  [BaseCase EXCEPT !.id = <<"lvh", k, 0, 0, 0, 0, 0>>, !.fam = "calls", !.vm = "nodata", !.helpers = {k},
                   !.prog = Flat(<< CallxI(k), ExitI >> \o [j \in 1..(k-1) |-> Mov64I(0, 7)] \o << Mov64I(0, 42), ExitI >>)]

\* a helper call `call k` at pc i is not a local call: it must not create a function entry at
\* i+1+k (here pc 3, inside main) that would change main's frame size (16) to the default (48)
HelperNotAnEntry ==
  [BaseCase EXCEPT !.id = <<"hne", 0, 0, 0, 0, 0, 0>>, !.fam = "calls", !.vm = "nodata", !.helpers = {2},
                   !.calc = TRUE, !.fsz = [dflt |-> 48, tab |-> << <<0, 16>>, <<6, 32>> >>],
                   !.prog = Flat(<< Mov64I(1, 0), Mov64I(2, 0), Mov64I(3, 0), Mov64I(4, 0), Mov64I(5, 0),
                                    CallI(2), Mov64I(6, 1), Mov64I(7, 2), Mov64R(1, 10), CallxI(1), ExitI,
                                    Mov64R(0, 1), Sub64R(0, 10), ExitI >>)]

\* a call tree: main calls f1 then f2; f2 calls f1 twice.  Every callee reports how far below its
\* caller's r10 its own r10 is (= the CALLER's frame size, whatever was called before):
\*   r0 = S(main) + 2^12 * ( S(main) + 2^12 * S(f2) + 2^24 * S(f2) )
Lsh64I(d, m) == I(103, d, 0, 0, m)      \* 0x67 lsh64 rd, imm
TreeProg ==
  Flat(<< Mov64R(1, 10), CallxI(6), Mov64R(6, 0), Mov64R(1, 10), CallxI(6), Lsh64I(0, 12), Add64R(0, 6), ExitI,   \* main 0..7
          Mov64R(0, 1), Sub64R(0, 10), ExitI,                                                                        \* f1   8..10
          Mov64R(7, 1), Sub64R(7, 10), Mov64R(1, 10), CallxI(-7), Mov64R(8, 0), Mov64R(1, 10), CallxI(-10),         \* f2   11..22
          Lsh64I(0, 12), Add64R(0, 8), Lsh64I(0, 12), Add64R(0, 7), ExitI >>)
\* (256 is the size used without a calculator: a function whose calculator answers exactly that, run
\* at a depth where a function of another size ran before, must still get 256)
TreeSizes == << <<64, 16, 32>>, <<16, 64, 32>>, <<32, 48, 16>>, <<256, 256, 256>>, <<16, 16, 512>>,
                <<64, 16, 256>>, <<16, 256, 64>>, <<256, 32, 256>> >>
TreeCase(ti) ==
  [BaseCase EXCEPT !.id = <<"tree", ti, 0, 0, 0, 0, 0>>, !.fam = "calls", !.vm = "nodata", !.prog = TreeProg,
                   !.calc = (ti > 0),
                   !.fsz = IF ti = 0 THEN NoFsz
                           ELSE [dflt |-> 48, tab |-> << <<0, TreeSizes[ti][1]>>, <<8, TreeSizes[ti][2]>>, <<11, TreeSizes[ti][3]>> >>]]

\* callee-saved registers whose ONLY writers in the whole program are of one kind (wide load,
\* memory load, mov, add): an engine that decides what to save from the instructions it sees must
\* see every kind of writer.  main sets r6..r9, calls f, sums them; f overwrites them the same way.
SavedSet(kind, r, v) ==
  CASE kind = 1 -> LddwSlots(r, FromNat(v))
    [] kind = 2 -> << StI(8, 10, -8, v), LdxI(8, r, 10, -8) >>
    [] kind = 3 -> << Mov64I(r, v) >>
    [] kind = 4 -> << Add64I(r, v) >>
SavedProg(kind) ==
  LET set(base) == SavedSet(kind, 6, base + 6) \o SavedSet(kind, 7, base + 7) \o SavedSet(kind, 8, base + 8) \o SavedSet(kind, 9, base + 9)
      main == set(100) \o << CallxI(5), Add64R(0, 6), Add64R(0, 7), Add64R(0, 8), Add64R(0, 9), ExitI >>
  IN Flat(main \o set(2000) \o << Mov64I(0, 1), ExitI >>)
SavedCase(kind) ==
  [BaseCase EXCEPT !.id = <<"saved", kind, 0, 0, 0, 0, 0>>, !.fam = "calls", !.vm = "nodata", !.prog = SavedProg(kind)]

\* a function entry reached without a call - by a tail jump (k = 1) or by falling through (k = 2);
\* the only call that names it as a target sits in dead code.  The code from that entry on runs
\* with the frame size of THAT function: its callee g reports the distance (32, not main's 16).
EntryCase(k) ==
  [BaseCase EXCEPT !.id = <<"entry", k, 0, 0, 0, 0, 0>>, !.fam = "calls", !.vm = "nodata", !.calc = TRUE,
     !.fsz = [dflt |-> 48, tab |-> IF k = 1 THEN << <<0, 16>>, <<5, 32>>, <<8, 64>> >> ELSE << <<0, 16>>, <<2, 32>>, <<7, 64>> >>],
     !.prog = Flat(IF k = 1
                   THEN << Mov64R(1, 10), JaI(3), CallxI(2), ExitI, ExitI,            \* main: tail jump to f (5); dead callx f
                           Mov64R(1, 10), CallxI(1), ExitI,                           \* f (5): calls g (8)
                           Mov64R(0, 1), Sub64R(0, 10), ExitI >>                      \* g (8)
                   ELSE << Mov64I(2, 0), Mov64I(3, 0),                                \* main falls into f (2)
                           Mov64R(1, 10), CallxI(3), ExitI,                           \* f (2): calls g (7)
                           CallxI(-4), ExitI,                                         \* dead code: callx f
                           Mov64R(0, 1), Sub64R(0, 10), ExitI >>)]

\* main is the only function and calls itself (the only call target is pc 0): level 2 reports its
\* distance below level 1 - the frame size of the function at pc 0
SelfRecCase(sz) ==
  [BaseCase EXCEPT !.id = <<"selfrec", sz, 0, 0, 0, 0, 0>>, !.fam = "calls", !.vm = "nodata", !.calc = TRUE,
     !.fsz = [dflt |-> 256, tab |-> << <<0, sz>> >>],
     \* (r1 is the only register defined at entry: 0 on the first level, 1 on the second; r2 carries level 1's r10)
     !.prog = Flat(<< I(85, 1, 0, 4, 0), Mov64I(1, 1), Mov64R(2, 10), CallxI(-4), ExitI,
                      Mov64R(0, 2), Sub64R(0, 10), ExitI >>)]
\* the call tree with main calling the later-placed function first
TreeProg2 ==
  Flat(<< Mov64R(1, 10), CallxI(9), Mov64R(6, 0), Mov64R(1, 10), CallxI(3), Lsh64I(0, 12), Add64R(0, 6), ExitI,    \* main 0..7: f2 (11) then f1 (8)
          Mov64R(0, 1), Sub64R(0, 10), ExitI,                                                                        \* f1   8..10
          Mov64R(7, 1), Sub64R(7, 10), Mov64R(1, 10), CallxI(-7), Mov64R(8, 0), Mov64R(1, 10), CallxI(-10),         \* f2   11..22
          Lsh64I(0, 12), Add64R(0, 8), Lsh64I(0, 12), Add64R(0, 7), ExitI >>)
TreeCase2(ti) ==
  [BaseCase EXCEPT !.id = <<"tree2", ti, 0, 0, 0, 0, 0>>, !.fam = "calls", !.vm = "nodata", !.prog = TreeProg2, !.calc = TRUE,
                   !.fsz = [dflt |-> 48, tab |-> << <<0, TreeSizes[ti][1]>>, <<8, TreeSizes[ti][2]>>, <<11, TreeSizes[ti][3]>> >>]]

CallsCases(u) ==
  WithJitDev({ SelfRecCase(sz) : sz \in {16, 64} } \cup { TreeCase2(ti) : ti \in 1..Len(TreeSizes) }) \cup
  { LocalVsHelper(k) : k \in {1, 2, 6} } \cup { SavedCase(k) : k \in 1..4 } \cup WithJitDev({ EntryCase(k) : k \in {1, 2} }) \cup
  WithJitDev( { HelperNotAnEntry } \cup { TreeCase(ti) : ti \in 0..Len(TreeSizes) } \cup { ChainCase(t[1], t[2], t[3]) : t \in {x \in (0..9) \X {0, 1} \X (1..7) : Keep(x[1] + 3*x[2] + 5*x[3])} }
              \cup { RecCase(N, ci) : N \in 0..9, ci \in {1, 2, 3} } )

(***************************************************************************)
(* Family "cfg" (C04, C12): control-flow shapes a block-structured compiler *)
(* has to get right - a back edge to instruction 0, dead code after ja and  *)
(* exit, a block reached only by fall-through, a jump over a wide load, an  *)
(* exit in the middle, nested diamonds - and unused fields that must be     *)
(* ignored: a dst field on call / ldabs / ldind, an offset on exit.         *)
(***************************************************************************)
CfgProgs == <<
  \* 1: loop through instruction 0:  add r1,1 ; jlt r1,3,-2 ; mov r0,r1 ; exit         => 3
  << Add64I(1, 1), JltI(1, 3, -2), Mov64R(0, 1), ExitI >>,
  \* 2: dead code after ja and after exit
  << Mov64I(0, 1), JaI(2), Mov64I(0, 2), ExitI, Add64I(0, 10), ExitI, Mov64I(0, 3), ExitI >>,
  \* 3: block reached only by fall-through from a not-taken branch
  << Mov64I(0, 5), JeqI(0, 6, 1), Add64I(0, 1), Add64I(0, 1), ExitI >>,
  \* 4: jump over a wide load
  << Mov64I(0, 4), JaI(2) >> \o LddwSlots(0, V64[16]) \o << ExitI >>,
  \* 5: exit in the middle, second half reached by a branch
  << Mov64I(0, 1), JeqI(0, 1, 1), ExitI, Add64I(0, 41), ExitI >>,
  \* 6: nested diamonds
  << Mov64I(0, 0), Mov64I(2, 7), JeqI(2, 7, 2), Add64I(0, 1), JaI(3), JeqI(2, 8, 1), Add64I(0, 2), Add64I(0, 4), Add64I(0, 8), ExitI >>,
  \* 7: exit with a non-zero offset field and registers in unused fields
  << Mov64I(0, 9), I(EXIT, 3, 4, -5, 77) >>,
  \* 8: ja with registers / immediate in unused fields
  << Mov64I(0, 8), I(JA, 5, 6, 1, 123), ExitI, ExitI >>,
  \* 9: two back edges (counted loop inside a loop)
  << Mov64I(0, 0), Mov64I(2, 0), Mov64I(3, 0), Add64I(0, 1), Add64I(3, 1), JltI(3, 3, -3), Add64I(2, 1), JltI(2, 2, -6), ExitI >>
>>
CfgCases(u) ==
  { [BaseCase EXCEPT !.id = <<"cfg", k, 0, 0, 0, 0, 0>>, !.fam = "cfg", !.vm = "nodata", !.prog = Flat(CfgProgs[k])] : k \in 1..Len(CfgProgs) }
  \cup
  \* packet loads and helper calls with a non-zero dst field: the result still goes to r0
  { [WithPkt([BaseCase EXCEPT !.vm = "raw"], 16) EXCEPT !.id = <<"cfgld", w, d, ind, 0, 0, 0>>, !.fam = "cfg",
       !.prog = Flat(<< Mov64I(0, 0), Mov64I(d, 99), Mov64I(4, 2),
                        IF ind = 0 THEN I(32 + SizeCode(w), d, 0, 0, 3) ELSE I(64 + SizeCode(w), d, 4, 0, 1), ExitI >>)] :
       w \in Widths, d \in {3, 9}, ind \in {0, 1} }
  \cup
  { [BaseCase EXCEPT !.id = <<"cfgcall", d, 0, 0, 0, 0, 0>>, !.fam = "cfg", !.vm = "nodata", !.helpers = {6},
       !.prog = Flat(<< Mov64I(0, 0), Mov64I(d, 99), Mov64I(1, 1), Mov64I(2, 2), Mov64I(3, 3), Mov64I(4, 4), Mov64I(5, 5),
                        I(CALL, d, 0, 7, 6), ExitI >>)] : d \in {3, 7, 9} }

(***************************************************************************)
(* Family "flow" (C01, C03, C04, C08): shapes that defeat an engine which   *)
(* remembers something about the machine state at translation time -       *)
(* a value, a scratch register's content, a checked address - across a     *)
(* point where the state can change.                                       *)
(*   dead     a helper call that is never reached names an unregistered id *)
(*            (the interpreter must not mind; the compilers refuse)        *)
(*   join     two identical by-register operations in a row, the second    *)
(*            also reached by a jump taken from elsewhere (whatever the    *)
(*            first left in a scratch register is not there on that path)  *)
(*   alias    the same bytes written through r10 and through a copy of it  *)
(*            (and the packet through two registers), then read again      *)
(*   uaw      r0 is set to a constant, then written by something that is   *)
(*            not an ALU instruction (helper, packet load, load, wide      *)
(*            load, local call), then used as the source of every          *)
(*            register-form ALU instruction                                *)
(***************************************************************************)
FlowDead(k) ==
  [BaseCase EXCEPT !.id = <<"dead", k, 0, 0, 0, 0, 0>>, !.fam = "flow", !.vm = "nodata", !.helpers = {1},
     !.prog = Flat(IF k = 1 THEN << Mov64I(0, 7), JeqI(0, 7, 1), CallI(99), ExitI >>                    \* branch not taken here
                   ELSE << Mov64I(0, 3), ExitI, CallI(99), ExitI >>)]                                     \* dead code

JoinOps == << 111, 127, 207, 108, 124, 204, 47, 63, 159, 44, 60, 156 >>   \* lsh rsh arsh (64, 32) ; mul div mod (64, 32), register forms
FlowJoin(oi, taken) ==
  LET o == JoinOps[oi] IN
  [BaseCase EXCEPT !.id = <<"join", o, taken, 0, 0, 0, 0>>, !.fam = "flow", !.vm = "nodata",
     !.prog = Flat(<< Mov64I(2, 77777), Mov64I(1, 3), Mov64I(5, 5), Mov64I(6, 1600),
                      I(o, 6, 5, 0, 0),                     \* the same kind of operation with another operand register
                      JeqI(1, IF taken = 1 THEN 3 ELSE 4, 1),   \* taken: skip the first of the pair
                      I(o, 2, 1, 0, 0),
                      I(o, 2, 1, 0, 0),                     \* <- jump target
                      Mov64R(0, 2), Add64R(0, 6), ExitI >>)]

FlowAlias(k, w) ==
  IF k = 1
  THEN [BaseCase EXCEPT !.id = <<"alias", k, w, 0, 0, 0, 0>>, !.fam = "flow", !.vm = "nodata",
          !.prog = Flat(<< StI(8, 10, -8, 1), LdxI(w, 4, 10, -8),          \* [r10-8] written and read through r10
                           Mov64R(2, 10), Add64I(2, -8), Mov64I(3, 2), StxI(w, 2, 3, 0),     \* ... written through a copy
                           LdxI(w, 0, 10, -8), Add64R(0, 4), ExitI >>)]
  ELSE [WithPkt([BaseCase EXCEPT !.vm = "raw"], 16) EXCEPT !.id = <<"alias", k, w, 0, 0, 0, 0>>, !.fam = "flow",
          !.prog = Flat(<< LdxI(w, 4, 1, 8), Mov64R(2, 1), Add64I(2, 4), Mov64I(3, 2), StxI(w, 2, 3, 4),   \* [r1+8] = [r2+4]
                           LdxI(w, 0, 1, 8), Add64R(0, 4), ExitI >>)]

UawWriters == 1..6     \* 1 helper  2 ldabsb  3 ldindb  4 ldxb  5 lddw  6 local call
UawOps == {o \in AluOpcodes : SrcBit(o) = 1}
FlowUaw(wk, o) ==
  LET pre == << Mov64I(6, 100), Mov64I(0, 5) >>
      use == << I(o, 6, 0, 0, 0), Mov64R(0, 6), ExitI >>
      w   == CASE wk = 1 -> << Mov64I(1, 0), Mov64I(2, 0), Mov64I(3, 0), Mov64I(4, 0), Mov64I(5, 0), CallI(2) >>
               [] wk = 2 -> << LdAbsI(1, 1) >>
               [] wk = 3 -> << Mov64I(4, 1), LdIndI(1, 4, 1) >>
               [] wk = 4 -> << LdxI(1, 0, 1, 3) >>
               [] wk = 5 -> LddwSlots(0, V64[3])
               [] wk = 6 -> << CallxI(3) >>
      tail == IF wk = 6 THEN << Mov64I(0, 4), ExitI >> ELSE <<>>     \* the local function: returns 4
  IN [WithPkt([BaseCase EXCEPT !.vm = "raw"], 16) EXCEPT !.id = <<"uaw", wk, o, 0, 0, 0, 0>>, !.fam = "flow", !.helpers = {2},
        !.prog = Flat(pre \o w \o use \o tail)]

\* alias, continued: 3 a stack pointer built without ever copying r10 (mov r1, -64 ; add r1, r10) used
\* deeper than any direct [r10+off] access; 4 a packet load, a store into the same packet bytes
\* through r1, the same packet load again
FlowAlias2(k, w) ==
  IF k = 3
  THEN [BaseCase EXCEPT !.id = <<"alias", k, w, 0, 0, 0, 0>>, !.fam = "flow", !.vm = "nodata",
          !.prog = Flat(<< StI(8, 10, -8, 7), Mov64I(1, -256), I(15, 1, 10, 0, 0),         \* add64 r1, r10
                           StI(w, 1, 0, 42), LdxI(w, 0, 1, 0), LdxI(8, 2, 10, -8), Add64R(0, 2), ExitI >>)]
  ELSE [WithPkt([BaseCase EXCEPT !.vm = "raw"], 16) EXCEPT !.id = <<"alias", k, w, 0, 0, 0, 0>>, !.fam = "flow",
          !.prog = Flat(<< LdAbsI(w, 0), Mov64R(6, 0), StI(w, 1, 0, 90), LdAbsI(w, 0), I(103, 0, 0, 0, 8), Add64R(0, 6), ExitI >>)]

\* use after write, as a base address: r0 is a valid pointer, is used, is rewritten by a helper
\* (which returns a small integer - not an address of any region), and is used again the same way
FlowUawMem(w) ==
  [WithPkt([BaseCase EXCEPT !.vm = "raw"], 16) EXCEPT !.id = <<"uawmem", w, 0, 0, 0, 0, 0>>, !.fam = "flow", !.helpers = {2},
     !.prog = Flat(<< Mov64R(0, 1), LdxI(w, 6, 0, 3), Mov64I(1, 0), Mov64I(2, 0), Mov64I(3, 0), Mov64I(4, 0), Mov64I(5, 0),
                      CallI(2), LdxI(w, 6, 0, 3), Mov64R(0, 6), ExitI >>)]

\* join, for conditional jumps: two conditional jumps on the same operands in a row, the second
\* reached only by a taken jump of the OTHER width class whose comparison came out differently
FlowJoinJmp(k) ==
  LET first == IF k = 1 THEN I(22, 2, 0, 1, 9) ELSE I(21, 2, 0, 1, 9)      \* jeq32 / jeq r2, 9, +1 (taken)
      a == IF k = 3 THEN I(38, 1, 0, 3, 5) ELSE I(37, 1, 0, 3, 5)           \* jgt32 / jgt r1, 5, +3
      b == IF k = 3 THEN I(22, 1, 0, 3, 5) ELSE I(21, 1, 0, 3, 5)           \* jeq32 / jeq r1, 5, +3   <- target
  IN [BaseCase EXCEPT !.id = <<"joinj", k, 0, 0, 0, 0, 0>>, !.fam = "flow", !.vm = "nodata",
        !.prog = Flat(<< Mov64I(1, 7), Mov64I(2, 9), first, a, b, Mov64I(0, 2), ExitI, Mov64I(0, 48), ExitI >>)]

\* loops: a body of a x `add64 r0, 1` and b x `mov64 r3, r4` (4 and 3 bytes of x86 each: every code
\* distance occurs) run twice, closed by a conditional or an unconditional backward jump; and a loop
\* whose header directly follows a conditional jump, dividing by a register that changes in the loop
FlowLoop(a, b, uncond) ==
  LET n == a + b
      \* (run-length segments: the body may be thousands of instructions long)
      body == (IF a > 0 THEN << Seg(a, Add64I(0, 1)) >> ELSE <<>>) \o (IF b > 0 THEN << Seg(b, Mov64R(3, 4)) >> ELSE <<>>)
  IN [BaseCase EXCEPT !.id = <<"loop", a, b, uncond, 0, 0, 0>>, !.fam = "flow", !.vm = "nodata",
        !.prog = Flat(<< Mov64I(0, 0), Mov64I(4, 44), Mov64I(5, 2) >>) \o body
                 \o Flat(IF uncond = 0 THEN << Add64I(5, -1), I(85, 5, 0, -(n + 2), 0), ExitI >>                 \* jne r5, 0, back
                         ELSE << Add64I(5, -1), JeqI(5, 0, 1), JaI(-(n + 3)), ExitI >>)]
FlowLoopDiv(o) ==
  [BaseCase EXCEPT !.id = <<"loopdiv", o, 0, 0, 0, 0, 0>>, !.fam = "flow", !.vm = "nodata",
     !.prog = Flat(<< Mov64I(6, 100000), Mov64I(2, 5), Mov64I(5, 3), JeqI(5, 0, 4),
                      I(o, 6, 2, 0, 0), Add64I(2, 1), Add64I(5, -1), I(85, 5, 0, -4, 0), Mov64R(0, 6), ExitI >>)]

FlowCases(u) ==
  LdIndWrapCases \cup      \* (also an address computation two engines must agree on)
  { FlowAlias2(k, w) : k \in {3, 4}, w \in Widths } \cup
  { FlowUawMem(w) : w \in Widths } \cup
  { FlowJoinJmp(k) : k \in 1..3 } \cup
  \* (a x 7 or 4 bytes + b x 3 bytes of x86, b up to 6: every code distance from a few dozen bytes to
  \* beyond 170 occurs, whatever the exact encodings are)
  { FlowLoop(t[1], t[2], t[3]) : t \in { x \in (0..40) \X (0..6) \X {0, 1} : x[1] + x[2] > 0 /\ (Deep \/ (x[1] >= 8 /\ x[1] <= 24)) } } \cup
  { FlowLoop(a, 1, un) : a \in {100, 300, 1000, 5000}, un \in {0, 1} } \cup      \* middle sizes (code distances of 0.5 - 35 kB)
  { FlowLoopDiv(o) : o \in {63, 60, 159, 156} } \cup
  { FlowDead(k) : k \in {1, 2} } \cup
  { FlowJoin(oi, t) : oi \in 1..Len(JoinOps), t \in {0, 1} } \cup
  { FlowAlias(k, w) : k \in {1, 2}, w \in Widths } \cup
  { FlowUaw(t[1], t[2]) : t \in { x \in UawWriters \X UawOps : Keep(x[1] + 3 * x[2]) \/ Op(x[2]) \in {DIV, MOD} } }

(***************************************************************************)
(* Family "pairs" (C01, C03, C04): every ordered pair (X ; Y) of            *)
(* instruction kinds, Y consuming what X produced, with all registers and  *)
(* the touched packet bytes observed afterwards - straight, and with Y     *)
(* also a jump target (the path through X, and the path that skips X).     *)
(* What an engine remembers from translating X must not leak into Y.       *)
(*   r9 packet pointer ; r6 = A (X's destination) ; r7 = B (X's source) ;  *)
(*   r8 = C (Y's destination, Y's source is r6) ; r0..r5 known values.     *)
(***************************************************************************)
IPairKinds == 1..18
\* the instruction(s) of kind k with destination d and source s
IPairInsn(k, d, s) ==
  CASE k = 1  -> << I(7, d, 0, 0, 13) >>              \* add64 d, 13
    [] k = 2  -> << I(15, d, s, 0, 0) >>              \* add64 d, s
    [] k = 3  -> << I(188, d, s, 0, 0) >>             \* mov32 d, s
    [] k = 4  -> << I(111, d, s, 0, 0) >>             \* lsh64 d, s
    [] k = 5  -> << I(63, d, s, 0, 0) >>              \* div64 d, s
    [] k = 6  -> << I(156, d, s, 0, 0) >>             \* mod32 d, s
    [] k = 7  -> << I(39, d, 0, 0, -3) >>             \* mul64 d, -3
    [] k = 8  -> << I(135, d, 0, 0, 0) >>             \* neg64 d
    [] k = 9  -> << I(220, d, 0, 0, 16) >>            \* be16 d
    [] k = 10 -> << I(97, d, 9, 8, 0) >>              \* ldxw d, [r9+8]
    [] k = 11 -> << I(123, 9, s, 72, 0) >>            \* stxdw [r9+72], s
    [] k = 12 -> << I(114, 9, 0, 80, 90) >>           \* stb [r9+80], 0x5a
    [] k = 13 -> << I(219, 9, s, 88, 0) >>            \* xadd dw [r9+88], s
    [] k = 14 -> << I(40, 0, 0, 0, 2) >>              \* ldabsh 2          (writes r0)
    [] k = 15 -> << I(80, 0, 1, 0, 1) >>              \* ldindb r1, 1      (writes r0; r1 = 1)
    [] k = 16 -> LddwSlots(d, V64[16])                \* lddw d
    [] k = 17 -> << I(CALL, 0, 0, 0, 2) >>            \* call helper 2     (writes r0, clobbers r1-r5)
    [] k = 18 -> << I(45, d, s, 1, 0), Mov64I(0, 119) >>   \* jgt d, s, +1 ; mov r0, 0x77
IPairProg(kx, ky, shape, A, Bv) ==
  LET x == IPairInsn(kx, 6, 7)
      y == IPairInsn(ky, IF ky \in {1, 7, 8, 9} THEN 6 ELSE 8, 6)
      setup == << Mov64R(9, 1) >> \o LddwSlots(6, A) \o LddwSlots(7, Bv) \o LddwSlots(8, FrameVal(8))
               \o << Mov64I(0, 100), Mov64I(1, 1), Mov64I(2, 2), Mov64I(3, 3), Mov64I(4, 4), Mov64I(5, 5) >>
      \* shape 1: X ; Y    shape 2: jeq r5, 6, skip-X (not taken) ; X ; Y    shape 3: jeq r5, 5, skip-X (taken) ; X ; Y
      gate == IF shape = 1 THEN <<>> ELSE << JeqI(5, IF shape = 2 THEN 6 ELSE 5, Len(x)) >>
      reset == IF kx = 17 \/ ky = 17 THEN << Mov64I(1, 1), Mov64I(2, 2), Mov64I(3, 3), Mov64I(4, 4), Mov64I(5, 5) >> ELSE <<>>
      save == [r \in 1..9 |-> StxI(8, 9, r - 1, 8 * (r - 1))]            \* r0..r8 -> packet bytes 0..71
  IN Flat(setup \o gate \o x \o y \o reset \o save \o << Mov64I(0, 0), ExitI >>)
IPairCaseOf(t) ==
  [WithPkt([BaseCase EXCEPT !.vm = "raw"], FrameLen) EXCEPT
     !.id = <<"pr", t[1], t[2], t[3], t[4], 0, 0>>, !.fam = "pairs", !.helpers = {2},
     !.prog = IPairProg(t[1], t[2], t[3], V64[<<14, 18>>[t[4]]], V64[<<4, 1>>[t[4]]])]
PairsCases(u) ==
  { IPairCaseOf(t) : t \in { x \in IPairKinds \X IPairKinds \X {1, 2, 3} \X {1, 2} : Keep(x[1] + 3 * x[2] + 7 * x[3] + 11 * x[4]) } }

(***************************************************************************)
(* Family "helpers" (C08): helper calls with boundary ids and arguments,   *)
(* at call depth 0..3 and 7, 8 (the deepest allowed), one to three calls    *)
(* per program, with exact, larger                                         *)
(* and incomplete sets of registered helpers.                              *)
(***************************************************************************)
HelperIds == << 0, 1, 6, 2147483647, MinI32, -1 >>

\* the body around one helper call: arguments from V64, result folded with r6..r10
HCall(id, a) == LddwSlots(1, V64[a[1]]) \o LddwSlots(2, V64[a[2]]) \o LddwSlots(3, V64[a[3]])
                \o LddwSlots(4, V64[a[4]]) \o LddwSlots(5, V64[a[5]]) \o << CallI(id) >>
HBody(ids, a) ==
  << Mov64I(6, 66), Mov64I(7, 77), Mov64I(8, 88), Mov64R(9, 10) >>
  \o HCall(ids[1], a)
  \o (IF Len(ids) >= 2 THEN << Mov64R(6, 0) >> \o HCall(ids[2], <<a[2], a[3], a[4], a[5], a[1]>>) \o << Add64R(0, 6), Mov64I(6, 66) >> ELSE <<>>)
  \o (IF Len(ids) >= 3 THEN << Mov64R(7, 0) >> \o HCall(ids[3], <<a[5], a[4], a[3], a[2], a[1]>>) \o << Add64R(0, 7), Mov64I(7, 77) >> ELSE <<>>)
  \o << Add64R(0, 6), Add64R(0, 7), Add64R(0, 8), Sub64R(9, 10), Add64R(0, 9), ExitI >>

\* d nested "callx +1 ; exit" wrappers, then the body
HProg(d, ids, a) == Flat([k \in 1..(2*d) |-> IF k % 2 = 1 THEN CallxI(1) ELSE ExitI] \o HBody(ids, a))

ArgSets0 == << <<2, 3, 13, 16, 19>>, <<16, 15, 14, 13, 12>>, <<1, 11, 10, 9, 20>>, <<15, 15, 15, 15, 15>>, <<18, 17, 6, 7, 8>> >>
\* thorough: every rotation of the boundary values through the five argument positions
ArgSets == IF Deep THEN ArgSets0 \o [k \in 1..NV |-> [j \in 1..5 |-> ((k + 3 * j) % NV) + 1]] ELSE ArgSets0
RegSets(ids) == << {ids[k] : k \in 1..Len(ids)},                            \* exact
                   {ids[k] : k \in 1..Len(ids)} \cup {5, 77},               \* superset
                   {ids[k] : k \in 1..(Len(ids)-1)} \cup {5} >>             \* missing the last one
HelperCase(d, idsel, ai, rs) ==
  LET ids == idsel IN
  [BaseCase EXCEPT !.id = <<"h", d, ids, ai, rs, 0, 0>>, !.fam = "helpers", !.vm = "nodata",
                   !.prog = HProg(d, ids, ArgSets[ai]), !.helpers = RegSets(ids)[rs]]
\* a packet load after a helper call (the helper may change every caller-saved machine register):
\* kind 1 ldabs, 2 ldind, 3 both; at call depth d; on each VM kind that has a packet
HelperThenLoad(kind, d, vk, w) ==
  [WithPkt([BaseCase EXCEPT !.vm = vk], FrameLen) EXCEPT
     !.id = <<"hl", kind, d, vk, w, 0, 0>>, !.fam = "helpers", !.helpers = {1},
     !.prog = Flat([k \in 1..(2*d) |-> IF k % 2 = 1 THEN CallxI(1) ELSE ExitI]
                \o << Mov64I(6, 3), Mov64I(7, 0) >> \o HCall(1, ArgSets0[1]) \o << Mov64R(7, 0) >>
                \o (IF kind \in {1, 3} THEN << LdAbsI(w, 2), Add64R(7, 0) >> ELSE <<>>)
                \o (IF kind \in {2, 3} THEN << LdIndI(w, 6, 1), Add64R(7, 0) >> ELSE <<>>)
                \o << Mov64R(0, 7), ExitI >>)]
HelperThenLoadCases ==
  { HelperThenLoad(t[1], t[2], t[3], t[4]) : t \in (1..3) \X {0, 1} \X {"raw", "mbuff", "fixed"} \X {1, 8} }
\* a helper that writes n bytes into the packet through its pointer argument ("poke", Exec.tla):
\* the bytes around the write are loaded before and after the call, through a register and with
\* ldabs; at call depth d
PokeCase(n, pos, d) ==
  [WithPkt([BaseCase EXCEPT !.vm = "raw"], FrameLen) EXCEPT
     !.id = <<"poke", n, pos, d, 0, 0, 0>>, !.fam = "helpers", !.helpers = {1},
     !.prog = Flat([k \in 1..(2*d) |-> IF k % 2 = 1 THEN CallxI(1) ELSE ExitI]
                \o << Mov64R(6, 1), LdxI(1, 7, 6, pos), LdxI(8, 9, 6, 8 * (pos \div 8)),
                      Mov64R(1, 6), Add64I(1, pos) >>
                \o LddwSlots(2, V64[16])
                \o << Mov64I(3, 1886350181), Mov64I(4, n), Mov64I(5, 0), CallI(1),
                      LdxI(1, 0, 6, pos), Lsh64I(0, 8), LdxI(1, 2, 6, pos + n - 1), Add64R(0, 2), Lsh64I(0, 8),
                      LdxI(1, 2, 6, pos + n), Add64R(0, 2), Lsh64I(0, 8), Add64R(0, 7), Mov64R(8, 0),
                      LdAbsI(1, pos), Lsh64I(8, 8), Add64R(8, 0),
                      LdxI(8, 2, 6, 8 * (pos \div 8)), Sub64R(2, 9), Add64R(8, 2), Mov64R(0, 8), ExitI >>)]
PokeCases == { PokeCase(n, pos, d) : n \in {1, 2, 8}, pos \in {0, 5, 80}, d \in {0, 1} }
IdSels == { <<HelperIds[k]>> : k \in 1..6 } \cup { <<1, 6>>, <<-1, 0, MinI32>>, <<2147483647, 1, 1>> }
HelperCases(u) ==
  HelperThenLoadCases \cup PokeCases \cup
  { HelperCase(t[1], t[2], t[3], t[4]) :
      t \in { x \in {0, 1, 2, 3, 7, 8} \X IdSels \X (1..Len(ArgSets)) \X (1..3) : Keep(x[1] + 3 * x[3] + 7 * x[4] + Len(x[2])) } }

(***************************************************************************)
(* Family "ctx" (C09): probe programs that read what each VM kind presents *)
(* at entry: r1, the packet pointers of the metadata buffer, packet loads, *)
(* the 512-byte stack under r10.                                           *)
(***************************************************************************)
CtxPktLens == IF Deep THEN << 0, 1, 7, 8, 9, 64, 2, 15, 16, 17, 63, 65, 1500 >> ELSE << 0, 1, 7, 8, 9, 64 >>
OffPairs0 == << <<0, 8>>, <<8, 0>>, <<64, 80>>, <<80, 64>>, <<0, 4096>>, <<4096, 8>>, <<16, 24>>, <<65536, 8>>, <<8, 16>> >>
OffPairs == IF Deep THEN OffPairs0 \o << <<24, 16>>, <<0, 65536>>, <<4088, 4096>>, <<70000, 0>>, <<7, 15>>, <<15, 7>>, <<0, 9>>, <<100, 200>> >> ELSE OffPairs0

\* probes: 1 r1 ; 2 *(r1+do) ; 3 *(r1+deo) ; 4 *(r1+deo) - *(r1+do) ; 5 ldabsb 0 ; 6 ldabsb len-1 ;
\*         7 stb [r10-1] ; 8 stb [r10-512] ; 9 stb [r10+0] ; 10 stb [r10-513] ; 11 ldxb [r1+0] ; 12 ldxb [r1+len-1]
\* (offsets may exceed the 16-bit displacement: they are added to a copy of r1 first)
CtxProbe(pr, do, deo, plen) ==
  CASE pr = 1  -> << Mov64R(0, 1), ExitI >>
    [] pr = 2  -> << Mov64R(3, 1), Add64I(3, do), LdxI(8, 0, 3, 0), ExitI >>
    [] pr = 3  -> << Mov64R(3, 1), Add64I(3, deo), LdxI(8, 0, 3, 0), ExitI >>
    [] pr = 4  -> << Mov64R(3, 1), Add64I(3, deo), LdxI(8, 0, 3, 0),
                     Mov64R(3, 1), Add64I(3, do), LdxI(8, 2, 3, 0), Sub64R(0, 2), ExitI >>
    [] pr = 5  -> << LdAbsI(1, 0), ExitI >>
    [] pr = 6  -> << LdAbsI(1, plen - 1), ExitI >>
    [] pr = 7  -> << Mov64I(0, 7), StI(1, 10, -1, 1), LdxI(1, 0, 10, -1), ExitI >>
    [] pr = 8  -> << Mov64I(0, 8), StI(1, 10, -512, 2), LdxI(1, 0, 10, -512), ExitI >>
    [] pr = 9  -> << Mov64I(0, 9), StI(1, 10, 0, 3), ExitI >>
    [] pr = 10 -> << Mov64I(0, 10), StI(1, 10, -513, 4), ExitI >>
    [] pr = 11 -> << LdxI(1, 0, 1, 0), ExitI >>
    [] pr = 12 -> << LdxI(1, 0, 1, plen - 1), ExitI >>

CtxCase(vk, pr, li, oi, warm) ==
  LET vm   == VmKinds[vk]
      plen == CtxPktLens[li]
      op   == OffPairs[oi]
      c0   == [BaseCase EXCEPT !.vm = vm, !.fixed = op, !.warm = warm]
      c1   == IF vm = "nodata" THEN c0 ELSE WithPkt(c0, plen)
      c2   == IF vm = "mbuff" THEN WithMbuf(c1, 32) ELSE c1
  IN [c2 EXCEPT !.id = <<"ctx", vk, pr, li, oi, warm, 0>>, !.fam = "ctx",
                !.prog = Flat(CtxProbe(pr, op[1], op[2], IF plen = 0 THEN 1 ELSE plen))]

CtxOK(t) == /\ (t[2] \in {2, 3, 4} => VmKinds[t[1]] = "fixed")            \* pointer probes: fixed-metadata VM
            /\ (VmKinds[t[1]] # "fixed" => t[4] = 1)                        \* offsets only matter there
            /\ (VmKinds[t[1]] = "nodata" => t[3] = 1)
            \* (empty packet: both pointer slots are null on every engine)
CtxCases(u) ==
  { CtxCase(t[1], t[2], t[3], t[4], t[5]) :
      t \in { x \in (1..4) \X (1..12) \X (1..Len(CtxPktLens)) \X (1..Len(OffPairs)) \X {0, 1, 2} :
                CtxOK(x) /\ Keep(x[1] + 3*x[2] + 5*x[3] + 7*x[4] + x[5]) } }
=============================================================================
