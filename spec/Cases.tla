-------------------------------- MODULE Cases -------------------------------
(***************************************************************************)
(* Case families: what the bounded models enumerate.  Each family is a     *)
(* TLA+ set expression over boundary values, so "what was explored" is     *)
(* readable here and counted by TLC.  A family member is a case record     *)
(* (Exec.tla).  Sampling for the quick tier keeps the members whose index  *)
(* hash is congruent to Seed modulo Rate (Rate = 1 keeps everything).      *)
(***************************************************************************)
EXTENDS Exec

CONSTANTS Seed, Rate

Keep(h) == (h + Seed) % Rate = 0

(***************************************************************************)
(* Boundary value sets (as tuples, so that cases can refer to indices).    *)
(***************************************************************************)
W64(b0, b1, b2, b3, b4, b5, b6, b7) == <<b0, b1, b2, b3, b4, b5, b6, b7>>

V64 == << W64(0,0,0,0,0,0,0,0),                   \*  1: 0
          W64(1,0,0,0,0,0,0,0),                   \*  2: 1
          W64(2,0,0,0,0,0,0,0),                   \*  3: 2
          W64(31,0,0,0,0,0,0,0),                  \*  4: 31
          W64(32,0,0,0,0,0,0,0),                  \*  5: 32
          W64(33,0,0,0,0,0,0,0),                  \*  6: 33
          W64(63,0,0,0,0,0,0,0),                  \*  7: 63
          W64(64,0,0,0,0,0,0,0),                  \*  8: 64
          W64(255,255,255,127,0,0,0,0),           \*  9: 2^31-1
          W64(0,0,0,128,0,0,0,0),                 \* 10: 2^31
          W64(255,255,255,255,0,0,0,0),           \* 11: 2^32-1
          W64(0,0,0,0,1,0,0,0),                   \* 12: 2^32
          W64(255,255,255,255,255,255,255,127),   \* 13: 2^63-1
          W64(0,0,0,0,0,0,0,128),                 \* 14: 2^63
          W64(255,255,255,255,255,255,255,255),   \* 15: 2^64-1
          W64(136,119,102,85,68,51,34,17),        \* 16: 0x1122334455667788
          W64(0,0,0,128,255,255,255,255),         \* 17: -2^31 sign-extended
          W64(3,0,0,0,5,0,0,0),                   \* 18: low/high halves differ
          W64(254,255,255,255,255,255,255,255),   \* 19: -2
          W64(7,0,0,0,0,0,0,0) >>                 \* 20: 7

MinI32 == -2147483647 - 1
I32 == << 0, 1, -1, 2, 31, 32, 33, 63, 64, 127, 128, -128, -129,
          32767, 32768, 2147483647, MinI32, 7, -2, 65536 >>

OFFS == << 0, 1, -1, 127, 128, -128, -129, 32767, -32768 >>

ZeroBase == Zero
PktBase(len)  == SubN(W64(0,0,16,0,0,16,0,0), len)     \* ends at 0x0000_1000_0010_0000
MbufBase(len) == SubN(W64(0,0,32,0,0,16,0,0), len)     \* ends at 0x0000_1000_0020_0000
AllowBase(k, len) == SubN(W64(0,0,48 + 16*k,0,0,16,0,0), len)  \* 0x1000_0030_0000 + k*0x10_0000
\* start-aligned variants (first byte on a page boundary)
PktBaseS  == W64(0,0,80,0,0,16,0,0)                     \* 0x0000_1000_0050_0000
MbufBaseS == W64(0,0,96,0,0,16,0,0)                     \* 0x0000_1000_0060_0000

NoFsz == [dflt |-> 256, tab |-> <<>>]

\* a recognisable packet: byte k (1-based) is 16 + k
PatBytes(n) == [k \in 1..n |-> (16 + k) % 256]

BaseCase == [id |-> <<>>, fam |-> "", vm |-> "raw", prog |-> <<>>,
             pkt |-> [base |-> PktBase(0), bytes |-> <<>>],
             mbuf |-> [base |-> MbufBase(0), bytes |-> <<>>],
             fixed |-> <<0, 8>>, allow |-> <<>>, helpers |-> {}, fsz |-> NoFsz,
             calc |-> FALSE, budget |-> 0]

WithPkt(c, n)  == [c EXCEPT !.pkt  = [base |-> PktBase(n),  bytes |-> PatBytes(n)]]
WithMbuf(c, n) == [c EXCEPT !.mbuf = [base |-> MbufBase(n), bytes |-> [k \in 1..n |-> (128 + k) % 256]]]

(***************************************************************************)
(* Instruction shorthands.                                                 *)
(***************************************************************************)
\* lddw rD, <64-bit word>: two slots
ImmOfBytes(w, k) == DecodeImm(w[k+1], w[k+2], w[k+3], w[k+4])
LddwSlots(d, w) == << I(LDDW, d, 0, 0, ImmOfBytes(w, 0)), I(0, 0, 0, 0, ImmOfBytes(w, 4)) >>
Mov64R(d, s) == I(191, d, s, 0, 0)       \* 0xbf mov64 rd, rs
Mov64I(d, m) == I(183, d, 0, 0, m)       \* 0xb7 mov64 rd, imm
Add64I(d, m) == I(7, d, 0, 0, m)         \* 0x07 add64 rd, imm
ExitI        == I(EXIT, 0, 0, 0, 0)
JaI(off)     == I(JA, 0, 0, off, 0)

VmKinds == <<"raw", "nodata", "mbuff", "fixed">>

\* give the case what its VM kind needs: a packet for raw/mbuff/fixed, metadata for mbuff
Dress(c, vm) ==
  LET c1 == [c EXCEPT !.vm = vm] IN
  IF vm = "nodata" THEN c1
  ELSE IF vm = "mbuff" THEN WithMbuf(WithPkt(c1, 16), 32)
  ELSE WithPkt(c1, 16)

(***************************************************************************)
(* Family "alu": every ALU32 / ALU64 / byte-swap opcode on boundary        *)
(* operands and register pairs.                                            *)
(*   lddw rD, A ; lddw rS, B ; <op rD, rS|imm> ; mov64 r0, rD ; exit       *)
(***************************************************************************)
AluOpcodes == {o \in 0..255 : IsAlu32(o) \/ IsAlu64(o)}
RegForms == {o \in AluOpcodes : SrcBit(o) = 1}
ImmForms == {o \in AluOpcodes : SrcBit(o) = 0}

AluProg(o, d, s, A, Bv, imm) ==
  Flat( LddwSlots(d, A)
        \o (IF s <= 9 /\ SrcBit(o) = 1 THEN LddwSlots(s, Bv) ELSE <<>>)
        \o << I(o, d, s, 0, imm) >>
        \o (IF d # 0 THEN << Mov64R(0, d) >> ELSE <<>>)
        \o << ExitI >> )

AluCase(tag, o, d, s, ai, bi, imm, vm) ==
  [Dress(BaseCase, vm) EXCEPT !.id = <<tag, o, d, s, ai, bi, imm>>, !.fam = "alu",
                              !.prog = AluProg(o, d, s, V64[ai], V64[bi], imm)]

RegPairs3 == {<<0, 1>>, <<6, 7>>, <<9, 3>>}
AllRegPairs == {<<d, s>> : d \in 0..9, s \in 0..10}
ValPairs4 == {<<16, 15>>, <<14, 2>>, <<18, 17>>, <<11, 6>>}
NV == Len(V64)
NI == Len(I32)

\* Index tuples <<tag, opcode, dst, src, ai, bi, imm>> are enumerated and sampled first;
\* only the kept ones are expanded into cases.  (Families take a dummy argument because
\* TLC evaluates every constant-level definition without parameters at start-up.)
HashId(id) == LET n(x) == (IF x < 0 THEN -(x+1) ELSE x) % 9973
              IN n(id[2]) + 3 * n(id[3]) + 5 * n(id[4]) + 7 * n(id[5]) + 11 * n(id[6]) + 13 * n(id[7])
Sample(S) == {t \in S : Keep(HashId(t))}

\* A: register forms, all value pairs, 3 register pairs
AluIdxA(u) == { <<"A", o, p[1], p[2], ai, bi, 0>> : o \in RegForms, p \in RegPairs3, ai \in 1..NV, bi \in 1..NV }
\* B: all forms, all register pairs (src field set even when unused), 4 value pairs
AluIdxB(u) == { <<"B", o, p[1], p[2], v[1], v[2], I32[(v[1] % NI) + 1]>> : o \in AluOpcodes, p \in AllRegPairs, v \in ValPairs4 }
\* C: immediate forms, all immediates, all dst values
AluIdxC(u) == { <<"C", o, 3, 0, ai, 1, I32[ii]>> : o \in ImmForms, ai \in 1..NV, ii \in 1..NI }
\* D: byte swaps
AluIdxD(u) == { <<"D", o, p[1], p[2], ai, 1, w>> :
               o \in {LE, BE}, w \in {16, 32, 64}, p \in {<<0, 0>>, <<7, 2>>, <<9, 10>>}, ai \in 1..NV }

AluCases(u) ==
  { AluCase(t[1], t[2], t[3], t[4], t[5], t[6], t[7], "nodata") :
      t \in Sample(AluIdxA(u) \cup AluIdxB(u) \cup AluIdxC(u) \cup AluIdxD(u)) }
  \cup
  \* E: a few on every VM kind (never sampled away)
  { AluCase("E", o, 2, 5, 16, 15, 0, VmKinds[k]) : o \in {15, 12, 31, 191, 188, 103, 108}, k \in 1..4 }

(***************************************************************************)
(* Family "jmp": every conditional branch, both outcomes observable.       *)
(*   lddw rD, A ; lddw rS, B ; jcc rD, rS|imm, +2 ; mov r0, 0x11 ; exit ;  *)
(*   mov r0, 0x22 ; exit                                                   *)
(***************************************************************************)
JmpOpcodes == {o \in 0..255 : IsCondJmp(o) \/ IsCondJmp32(o)}

JmpProg(o, d, s, A, Bv, imm) ==
  Flat( LddwSlots(d, A)
        \o (IF s <= 9 /\ SrcBit(o) = 1 THEN LddwSlots(s, Bv) ELSE <<>>)
        \o << I(o, d, s, 2, imm), Mov64I(0, 17), ExitI, Mov64I(0, 34), ExitI >> )

JmpCase(tag, o, d, s, ai, bi, imm, vm) ==
  [Dress(BaseCase, vm) EXCEPT !.id = <<tag, o, d, s, ai, bi, imm>>, !.fam = "jmp",
                              !.prog = JmpProg(o, d, s, V64[ai], V64[bi], imm)]

JmpRegForms == {x \in JmpOpcodes : SrcBit(x) = 1}
JmpImmForms == {x \in JmpOpcodes : SrcBit(x) = 0}
JmpIdxA(u) == { <<"A", o, p[1], p[2], ai, bi, 0>> : o \in JmpRegForms, p \in RegPairs3, ai \in 1..NV, bi \in 1..NV }
JmpIdxB(u) == { <<"B", o, p[1], p[2], v[1], v[2], I32[(v[1] % NI) + 1]>> : o \in JmpOpcodes, p \in AllRegPairs, v \in ValPairs4 }
JmpIdxC(u) == { <<"C", o, 4, 0, ai, 1, I32[ii]>> : o \in JmpImmForms, ai \in 1..NV, ii \in 1..NI }

JmpCases(u) ==
  { JmpCase(t[1], t[2], t[3], t[4], t[5], t[6], t[7], "nodata") :
      t \in Sample(JmpIdxA(u) \cup JmpIdxB(u) \cup JmpIdxC(u)) }

(***************************************************************************)
(* Family "far": branches at any position up to the 1,000,000-instruction  *)
(* limit.  A chain of "ja +32767" hops (one per 32768 instructions,        *)
(* separated by filler that must never execute) reaches the last block,    *)
(* where a conditional branch at a high pc is taken forward and a "ja"     *)
(* goes backward.  Run-length segments keep the program small.             *)
(***************************************************************************)
Filler == Add64I(0, 1000)           \* would corrupt r0 if it were ever executed

\* hops h = 0..H-1 at pc 32768*h, each followed by 32767 fillers; then the tail at 32768*H
FarProg(H, tail) ==
  [k \in 1..(2*H) |-> IF k % 2 = 1 THEN Seg(1, JaI(32767)) ELSE Seg(32767, Filler)] \o Flat(tail)

\* tail: mov r0,1 ; jeq r0,1,+1 ; exit(never first) ; add r0,5 ; ja -3 -> exit
FarTail == << Mov64I(0, 1), I(21, 0, 0, 1, 1), ExitI, Add64I(0, 5), JaI(-3) >>

FarCase(H) == [BaseCase EXCEPT !.id = <<"far", H, 0, 0, 0, 0, 0>>, !.fam = "far", !.vm = "nodata",
                               !.prog = FarProg(H, FarTail)]
FarCases(u) == { FarCase(H) : H \in {0, 1, 2, 3, 30} }
=============================================================================
