------------------------------ MODULE MC_Exec -------------------------------
(***************************************************************************)
(* Case generator and bounded model for everything that is "run a program  *)
(* in a context": every case of the selected families is an initial state, *)
(* Machine!Step runs it to termination with all invariants on, and each    *)
(* finished behaviour prints one line                                      *)
(*     REPLAY <json: the case and the outcome the specification allows>    *)
(* which the harness replays on the real engines.  When the specification  *)
(* is non-deterministic a case yields several lines with the same id: the  *)
(* implementation must match one of them.                                  *)
(***************************************************************************)
EXTENDS Cases, Json

CONSTANT Families        \* set of family names to enumerate

AllCases(u) ==
  (IF "alu" \in Families THEN AluCases(u) ELSE {}) \cup
  (IF "jmp" \in Families THEN JmpCases(u) ELSE {}) \cup
  (IF "frame" \in Families THEN FrameCases(u) ELSE {}) \cup
  (IF "flow" \in Families THEN FlowCases(u) ELSE {}) \cup
  (IF "pairs" \in Families THEN PairsCases(u) ELSE {}) \cup
  (IF "far" \in Families THEN FarCases(u) ELSE {}) \cup
  (IF "mem" \in Families THEN MemCases(u) ELSE {}) \cup
  (IF "bounds" \in Families THEN BoundsCases(u) ELSE {}) \cup
  (IF "farcall" \in Families THEN FarCallCases(u) ELSE {}) \cup
  (IF "calls" \in Families THEN CallsCases(u) ELSE {}) \cup
  (IF "helpers" \in Families THEN HelperCases(u) ELSE {}) \cup
  (IF "ctx" \in Families THEN CtxCases(u) ELSE {}) \cup
  (IF "cfg" \in Families THEN CfgCases(u) ELSE {})

Init == \E c \in AllCases(0) : InitFor(c)
Next == ExecNext
Spec == Init /\ [][Next]_mvars

\* JSON-friendly projection of a case
ProgOut(p) == [k \in 1..Len(p) |-> <<p[k].n, <<p[k].i.opc, p[k].i.dst, p[k].i.src, p[k].i.off, p[k].i.imm>>>>]
CaseOut(c) == [id |-> c.id, fam |-> c.fam, vm |-> c.vm, prog |-> ProgOut(c.prog),
               pkt |-> c.pkt, mbuf |-> c.mbuf, fixed |-> c.fixed, allow |-> c.allow,
               helpers |-> c.helpers, calc |-> c.calc, fsz |-> c.fsz, budget |-> c.budget, dev |-> c.dev, warm |-> c.warm,
               wf |-> WellFormed(c.prog)]

Emit == Done => PrintT("REPLAY " \o ToJson([case |-> CaseOut(env.c), exp |-> Outcome]))

\* Machine refines its control-flow abstraction MachineCF (used by MC_Safety to cover all inputs):
\* every step of every explored behaviour is a step of the abstraction.
CF == INSTANCE MachineCF WITH cfprog <- env.prog, cfpc <- pc,
                             cfstack <- [k \in 1..Len(frames) |-> frames[k].ret],
                             cfstatus <- status.k
CFRefinement == [][CF!CFNext]_<<env.prog, pc, [k \in 1..Len(frames) |-> frames[k].ret], status.k>>

\* design-level invariants checked in every state of every behaviour
\* the generators only produce encodable instructions (16-bit offsets, nibble registers)
ProgTypeOK == \A k \in 1..Len(Prog) : LET i == Prog[k].i IN
                 /\ i.off >= -32768 /\ i.off <= 32767 /\ i.dst \in 0..15 /\ i.src \in 0..15 /\ i.opc \in 0..255
                 /\ Prog[k].n >= 1
TypeOK == /\ pc \in Nat
          /\ (steps = 0 => ProgTypeOK)
          /\ \A r \in 0..10 : reg[r] \in Word /\ rt[r] \in {"c", "s", "m", "u"}
          /\ status.k \in {"run", "ok", "err", "stuck"}
SafeIfWellFormed == NoStuck \/ ~WellFormed(Prog)
Inv == TypeOK /\ SafeIfWellFormed /\ DepthBound /\ FramePointerOK /\ MemShapeOK /\ Emit
=============================================================================
