---------------------------- MODULE TraceCompile ----------------------------
(***************************************************************************)
(* Trace validation of compilations (C12, C08): every recorded call of     *)
(* jit_compile / cranelift_compile on a verifier-accepted program returned *)
(* exactly what the contract Verifier!CompileOk says (Ok or Err - a panic  *)
(* is no such value), twice the same, and the x86-64 JIT's sizing pass     *)
(* counted exactly the bytes the emission pass wrote, inside the buffer.   *)
(* Event: {prog, helpers, engine, vm, res, res2, sizes:[counted,emitted,buffer]} *)
(***************************************************************************)
EXTENDS Verifier, Json, IOUtils, TLC, TLCExt

Rec == ndJsonDeserialize(IOEnv.TRACE)
N == Len(Rec)
VARIABLE l

SegsOf(p) == [k \in 1..Len(p) |-> Seg(p[k][1], I(p[k][2][1], p[k][2][2], p[k][2][3], p[k][2][4], p[k][2][5]))]

Compile ==
  /\ l <= N
  /\ LET e == Rec[l]
         p == SegsOf(e.prog)
         H == {e.helpers[k] : k \in 1..Len(e.helpers)}
         want == IF CompileOk(p, H, e.engine) THEN "ok" ELSE "err"
     IN /\ WellFormed(p)                       \* the implementation accepted it: so must the specification
        /\ e.res = want /\ e.res2 = want       \* Ok/Err as specified, and repeatable
        /\ (e.engine = "jit" /\ want = "ok") => (e.sizes[1] = e.sizes[2] /\ e.sizes[2] <= e.sizes[3])
  /\ l' = l + 1

TraceInit == l = 1 /\ TLCSet(1, 1)
TraceSpec == TraceInit /\ [][Compile]_l
Mark == IF l > TLCGet(1) THEN TLCSet(1, l) ELSE TRUE
TraceAccepted == IF TLCGet(1) = N + 1 THEN PrintT(<<"TRACE-ACCEPTED", N>>)
                 ELSE PrintT(<<"TRACE-REJECTED", TLCGet(1), N>>) /\ FALSE
=============================================================================
