-------------------------------- MODULE Exec --------------------------------
(***************************************************************************)
(* Executions of the abstract machine for one "case": a VM kind, a         *)
(* program, input buffers, registered helpers / allowed ranges, a frame-   *)
(* size calculator.  InitFor builds the execution context each VM kind     *)
(* presents to the program (C09); Next runs Machine!Step with the model    *)
(* helper; Outcome is what an implementation must reproduce.               *)
(*                                                                         *)
(* A case is a record                                                      *)
(*   id      a tuple identifying the case inside its family                *)
(*   vm      "raw" | "nodata" | "mbuff" | "fixed"                          *)
(*   prog    segments <<[n, i]...>>                                        *)
(*   pkt     [base |-> word, bytes |-> <<byte...>>]   packet data          *)
(*   mbuf    [base |-> word, bytes |-> <<byte...>>]   metadata ("mbuff")   *)
(*   fixed   <<data_offset, data_end_offset>>          ("fixed")           *)
(*   allow   <<[base, bytes]...>>                      registered ranges   *)
(*   helpers set of registered helper ids (as signed 32-bit immediates)    *)
(*   fsz     [dflt |-> 256, tab |-> <<>>] when no calculator is set        *)
(*   budget  instruction budget, 0 = none                                  *)
(* Buffers the caller owns (pkt, mbuf, allow) have the addresses the case  *)
(* states: the harness maps them there.  The stack and the fixed-metadata  *)
(* VM's internal buffer are allocated by the implementation: their bases   *)
(* here are fictitious and every value derived from them is tainted.       *)
(***************************************************************************)
EXTENDS Machine

StackBase == <<0, 0, 0, 0, 240, 127, 0, 0>>      \* 0x00007ff0_00000000 (fictitious)
IMbufBase == <<0, 0, 0, 0, 224, 127, 0, 0>>      \* 0x00007fe0_00000000 (fictitious)
Dangling  == <<1, 0, 0, 0, 0, 0, 0, 0>>          \* address of an empty Rust slice

Max(x, y) == IF x >= y THEN x ELSE y

\* the fixed-metadata VM's buffer on entry: zero except the two packet pointers
FixedBuf(c) ==
  LET do  == c.fixed[1]
      deo == c.fixed[2]
      n   == Max(do, deo) + 8
      \* (an empty packet has no first byte: both slots hold null, under every engine - C09)
      pbeg == IF Len(c.pkt.bytes) = 0 THEN Zero ELSE c.pkt.base
      pend == AddN(pbeg, Len(c.pkt.bytes))
  IN [k \in 1..n |-> IF k > deo /\ k <= deo + 8 THEN pend[k - deo]
                     ELSE IF k > do /\ k <= do + 8 THEN pbeg[k - do]
                     ELSE 0]

\* region images <<pkt, mbuf, stack, allow...>> and bases
MemFor(c) ==
  << IF c.vm = "nodata" THEN <<>> ELSE c.pkt.bytes,
     IF c.vm = "mbuff" THEN c.mbuf.bytes ELSE IF c.vm = "fixed" THEN FixedBuf(c) ELSE <<>>,
     [k \in 1..StackSize |-> 0] >>
  \o [k \in 1..Len(c.allow) |-> c.allow[k].bytes]

BaseFor(c) ==
  << IF c.vm = "nodata" THEN Dangling ELSE c.pkt.base,
     IF c.vm = "mbuff" THEN c.mbuf.base ELSE IF c.vm = "fixed" THEN IMbufBase ELSE Dangling,
     StackBase >>
  \o [k \in 1..Len(c.allow) |-> c.allow[k].base]

\* r1 on entry and its taint (C09)
R1ForBases(c, bases) ==
  LET m == MemFor(c) IN
  IF Len(m[R_MBUF]) > 0 THEN bases[R_MBUF]
  ELSE IF Len(m[R_PKT]) > 0 THEN bases[R_PKT]
  ELSE Zero
R1For(c) == R1ForBases(c, BaseFor(c))
R1Taint(c) == IF c.vm = "fixed" THEN "m" ELSE "c"

\* function entries: pc 0 and the target of every local call
EntriesOf(p) == {0} \cup { SegStart(p, s) + 1 + p[s].i.imm :
                             s \in { x \in RealSegs(p) : p[x].i.opc = CALL /\ p[x].i.src = 1 } }
EnvFor(c) == [prog |-> c.prog, base |-> BaseFor(c), helpers |-> c.helpers,
              fsz |-> c.fsz, budget |-> c.budget, dev |-> c.dev, c |-> c, entries |-> EntriesOf(c.prog)]

InitFor(c) == InitWith(EnvFor(c), MemFor(c), R1For(c), R1Taint(c))

(***************************************************************************)
(* The model helper: every registered id k is bound to                     *)
(*    h_k(a1..a5) = a1 + 2 a2 + 3 a3 + 5 a4 + 7 a5 + zext32(k)            *)
(* (wrapping), which distinguishes argument order and the id.              *)
(***************************************************************************)
ModelHelperRet(id, args) ==
  Add(Add(Add(args[1], Mul(args[2], FromNat(2))),
          Add(Mul(args[3], FromNat(3)), Mul(args[4], FromNat(5)))),
      Add(Mul(args[5], FromNat(7)), LowHalf(FromInt(id))))

\* ... and it writes memory when asked to: with a3 = "poke" (0x706f6b65) and a4 = n in 1..8 it stores
\* the low n bytes of a2 at address a1 (helpers that write through a pointer argument exist -
\* memfrob - and compiled code must not keep a stale copy of such memory across the call)
PokeMagic == << 101, 107, 111, 112, 0, 0, 0, 0 >>
ModelHelperWrites(args) ==
  IF args[3] = PokeMagic /\ args[4][1] \in 1..8 /\ (\A k \in 2..8 : args[4][k] = 0)
  THEN << [addr |-> args[1], bytes |-> SubSeq(args[2], 1, args[4][1])] >>
  ELSE << >>

ModelAnswer == [ret |-> ModelHelperRet(Cur.imm, HelperArgs), clob |-> [r \in 1..5 |-> reg[r]],
                wr |-> ModelHelperWrites(HelperArgs)]

ExecNext == Step(ModelAnswer)

Done == ~Running

(***************************************************************************)
(* What the implementation must reproduce.                                 *)
(***************************************************************************)
HlogOut == [k \in 1..Len(hlog) |-> <<hlog[k].id, hlog[k].args>>]

Outcome == [k |-> status.k, class |-> status.class, val |-> status.val,
            pkt |-> mem[R_PKT],
            mbuf |-> IF env.c.vm = "mbuff" THEN mem[R_MBUF] ELSE <<>>,
            allow |-> SubSeq(mem, 4, Len(mem)),
            hlog |-> HlogOut, defd |-> defd, steps |-> steps, dev |-> env.dev]
=============================================================================
