---------------------------- MODULE MC_WordSmall ----------------------------
(***************************************************************************)
(* Exhaustive agreement of the limb algorithms of Word.tla with their      *)
(* mathematical definitions, for ALL operand pairs of a small-width word   *)
(* (8 bits: NB = 4, LB = 2 and NB = 2, LB = 4; 6 bits: NB = 2, LB = 3).    *)
(* Every initial state is one operand pair; the invariant is the           *)
(* conjunction of the agreement laws.                                      *)
(***************************************************************************)
EXTENDS Word, TLC

VARIABLES a, b
vars == <<a, b>>

\* 2^W initial states (b = 0); each has one successor per non-zero b, so that TLC's
\* workers share the 2^(2W) operand pairs (initial states are processed by one thread).
Init == a \in Word /\ b = Zero
Next == b = Zero /\ b' \in (Word \ {Zero}) /\ a' = a
Spec == Init /\ [][Next]_vars

na == ToNat(a)
nb == ToNat(b)
sh == nb % W                    \* a shift amount in range

\* floor division toward minus infinity for the arithmetic-shift reference
FloorDiv(x, d) == IF x >= 0 THEN x \div d ELSE -(((-x) + d - 1) \div d)

AddOK  == ToNat(Add(a, b)) = (na + nb) % M
SubOK  == ToNat(Sub(a, b)) = (na - nb + M) % M
NegOK  == ToNat(Neg(a)) = (M - na) % M
MulOK  == ToNat(Mul(a, b)) = (na * nb) % M
DivOK  == nb # 0 => /\ ToNat(Div(a, b)) = na \div nb
                    /\ ToNat(Mod(a, b)) = na % nb
CmpOK  == /\ Cmp(a, b)  = (IF na < nb THEN -1 ELSE IF na > nb THEN 1 ELSE 0)
          /\ SCmp(a, b) = (IF ToSigned(a) < ToSigned(b) THEN -1
                           ELSE IF ToSigned(a) > ToSigned(b) THEN 1 ELSE 0)
ShlOK  == ToNat(Shl(a, sh)) = (na * 2^sh) % M
ShrOK  == ToNat(Shr(a, sh)) = na \div 2^sh
SarOK  == ToNat(Sar(a, sh)) = (FloorDiv(ToSigned(a), 2^sh) + M) % M
LogicOK == /\ ToNat(Add(BAnd(a, b), BOr(a, b))) = (na + nb) % M        \* a&b + a|b = a+b
           /\ ToNat(Add(BXor(a, b), Shl(BAnd(a, b), 1))) = (na + nb) % M \* a^b + 2(a&b) = a+b
           /\ ToNat(BNot(a)) = M - 1 - na
HalfOK == /\ ToNat(LowHalf(a)) = na % 2^HW
          /\ ToNat(SExtHalf(a)) = (IF (na % 2^HW) >= 2^(HW-1)
                                   THEN (na % 2^HW) + M - 2^HW ELSE na % 2^HW)
          /\ ShAmt(b, W) = nb % W
          /\ ShAmt(b, HW) = nb % HW
ConvOK == /\ OfNat(na) = a
          /\ FromNat(na) = a
          /\ IsZero(a) = (na = 0)
          /\ TopBit(a) = na \div (M \div 2)
          /\ HighZero(a, HB) = (na < 2^HW)
          /\ (HighZero(a, HB) => LowNat(a, HB) = na)
SwapOK == /\ SwapLimbs(SwapLimbs(a, NB), NB) = a
          /\ SwapLimbs(SwapLimbs(a, HB), HB) = LowHalf(a)
CarryOK == CarryOut(a, b, 0) = (na + nb) \div M

AllOK == AddOK /\ SubOK /\ NegOK /\ MulOK /\ DivOK /\ CmpOK /\ ShlOK /\ ShrOK /\ SarOK
         /\ LogicOK /\ HalfOK /\ ConvOK /\ SwapOK /\ CarryOK
=============================================================================
