-------------------------------- MODULE Alu ---------------------------------
(***************************************************************************)
(* Data semantics of the eBPF ALU, byte-swap and branch-condition          *)
(* instructions on words (Word.tla), independent of registers and memory.  *)
(* "Full" operations act on the whole word (eBPF: 64 bits), "half"         *)
(* operations on the low half with the result zero-extended (eBPF: 32).    *)
(*                                                                         *)
(* C01, clause by clause:                                                  *)
(*   wrapping arithmetic ............ Add/Sub/Mul/Neg are modulo 2^W       *)
(*   32-bit results zero-extended ... LowHalf(..) around every half result *)
(*   shift counts masked ............ ShAmt(b, W) / ShAmt(b, HW)           *)
(*   division by zero gives 0 ....... DIV branch                           *)
(*   modulo by zero leaves dst ...... MOD branch (see AluHalf for the one  *)
(*                                    place where the statement leaves     *)
(*                                    room and the specification does too) *)
(***************************************************************************)
EXTENDS Word, Isa

AluFull(op, a, b) ==
  CASE op = ADD  -> Add(a, b)
    [] op = SUB  -> Sub(a, b)
    [] op = MUL  -> Mul(a, b)
    [] op = DIV  -> IF IsZero(b) THEN Zero ELSE Div(a, b)
    [] op = MOD  -> IF IsZero(b) THEN a ELSE Mod(a, b)
    [] op = OR   -> BOr(a, b)
    [] op = AND  -> BAnd(a, b)
    [] op = XOR  -> BXor(a, b)
    [] op = LSH  -> Shl(a, ShAmt(b, W))
    [] op = RSH  -> Shr(a, ShAmt(b, W))
    [] op = ARSH -> Sar(a, ShAmt(b, W))
    [] op = NEG  -> Neg(a)
    [] op = MOV  -> b

\* The set of admissible results of a half-width operation.  A singleton except for
\* modulo by zero: the low half is unchanged (required); the statement says both
\* "32-bit results are zero-extended" and "modulo by zero leaves the destination", so
\* the high half may be kept or cleared.
AluHalf(op, a, b) ==
  LET x == LowHalf(a)
      y == LowHalf(b)
  IN CASE op = ADD  -> {LowHalf(Add(x, y))}
       [] op = SUB  -> {LowHalf(Sub(x, y))}
       [] op = MUL  -> {LowHalf(Mul(x, y))}
       [] op = DIV  -> {IF IsZero(y) THEN Zero ELSE Div(x, y)}
       [] op = MOD  -> IF IsZero(y) THEN {a, x} ELSE {Mod(x, y)}
       [] op = OR   -> {BOr(x, y)}
       [] op = AND  -> {BAnd(x, y)}
       [] op = XOR  -> {BXor(x, y)}
       [] op = LSH  -> {LowHalf(Shl(x, ShAmt(y, HW)))}
       [] op = RSH  -> {Shr(x, ShAmt(y, HW))}
       [] op = ARSH -> {LowHalf(Sar(SExtHalf(x), ShAmt(y, HW)))}
       [] op = NEG  -> {LowHalf(Neg(x))}
       [] op = MOV  -> {y}

AluResults(op, full, a, b) == IF full THEN {AluFull(op, a, b)} ELSE AluHalf(op, a, b)

(***************************************************************************)
(* Byte swaps.  "le" on a little-endian host truncates to the width; "be"  *)
(* reverses the low bytes and clears the rest.  k = number of limbs.       *)
(* (The specification models a little-endian host, the only one rbpf's JIT *)
(* supports.)                                                              *)
(***************************************************************************)
EndianLE(a, k) == LowLimbs(a, k)
EndianBE(a, k) == SwapLimbs(a, k)

(***************************************************************************)
(* Branch conditions.  b is the second operand as a word: the source       *)
(* register, or the immediate sign-extended to the full width - also for   *)
(* the unsigned comparisons.                                               *)
(***************************************************************************)
CondFull(op, a, b) ==
  CASE op = J_EQ  -> Cmp(a, b) = 0
    [] op = J_NE  -> Cmp(a, b) # 0
    [] op = J_GT  -> Cmp(a, b) = 1
    [] op = J_GE  -> Cmp(a, b) >= 0
    [] op = J_LT  -> Cmp(a, b) = -1
    [] op = J_LE  -> Cmp(a, b) <= 0
    [] op = J_SET -> ~IsZero(BAnd(a, b))
    [] op = J_SGT -> SCmp(a, b) = 1
    [] op = J_SGE -> SCmp(a, b) >= 0
    [] op = J_SLT -> SCmp(a, b) = -1
    [] op = J_SLE -> SCmp(a, b) <= 0

CondHalf(op, a, b) ==
  IF op \in {J_SGT, J_SGE, J_SLT, J_SLE}
  THEN CondFull(op, SExtHalf(LowHalf(a)), SExtHalf(LowHalf(b)))
  ELSE CondFull(op, LowHalf(a), LowHalf(b))

Cond(op, full, a, b) == IF full THEN CondFull(op, a, b) ELSE CondHalf(op, a, b)

(***************************************************************************)
(* Reference semantics on integers (small-width models only): the text of  *)
(* the ISA, against which MC_AluSmall checks every operation on every      *)
(* operand pair.                                                           *)
(***************************************************************************)
RefFloorDiv(x, d) == IF x >= 0 THEN x \div d ELSE -(((-x) + d - 1) \div d)
RefSigned(n, width) == IF n >= 2^(width-1) THEN n - 2^width ELSE n

\* n, m naturals below 2^width; result a natural below 2^width
RefAlu(op, width, n, m) ==
  LET MM == 2^width
      s  == m % width
  IN CASE op = ADD  -> (n + m) % MM
       [] op = SUB  -> (n - m + MM) % MM
       [] op = MUL  -> (n * m) % MM
       [] op = DIV  -> IF m = 0 THEN 0 ELSE n \div m
       [] op = MOD  -> IF m = 0 THEN n ELSE n % m
       [] op = LSH  -> (n * 2^s) % MM
       [] op = RSH  -> n \div 2^s
       [] op = ARSH -> (RefFloorDiv(RefSigned(n, width), 2^s) + MM) % MM
       [] op = NEG  -> (MM - n) % MM
       [] op = MOV  -> m

RefCond(op, width, n, m) ==
  LET sn == RefSigned(n, width)
      sm == RefSigned(m, width)
  IN CASE op = J_EQ  -> n = m
       [] op = J_NE  -> n # m
       [] op = J_GT  -> n > m
       [] op = J_GE  -> n >= m
       [] op = J_LT  -> n < m
       [] op = J_LE  -> n <= m
       [] op = J_SGT -> sn > sm
       [] op = J_SGE -> sn >= sm
       [] op = J_SLT -> sn < sm
       [] op = J_SLE -> sn <= sm
=============================================================================
