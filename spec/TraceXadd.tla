------------------------------ MODULE TraceXadd ------------------------------
(***************************************************************************)
(* C18, binding: results of concurrent stress runs on the real engines.    *)
(* Event: {width (bytes), init, adds: [[addend, count], ...], final,       *)
(*         before: bytes around the word, after: the same bytes later}     *)
(* The only admissible final value is init + sum(addend * count) modulo    *)
(* 2^width, with every other byte unchanged (Xadd!NoLostUpdate and         *)
(* NeighboursUntouched at termination, at full width).                     *)
(***************************************************************************)
EXTENDS Word, Json, IOUtils, TLC, TLCExt
LOCAL INSTANCE SequencesExt

Rec == ndJsonDeserialize(IOEnv.TRACE)
N == Len(Rec)
VARIABLE l

AddOne(acc, a) == Add(acc, Mul(a[1], a[2]))          \* addend * count (both words)
Expected(e) == LowLimbs(FoldLeft(AddOne, e.init, e.adds), e.width)

Check ==
  /\ l <= N
  /\ LET e == Rec[l] IN
     /\ e.ok                                          \* every execution returned Ok
     /\ LowLimbs(e.final, e.width) = Expected(e)
     /\ e.final = LowLimbs(e.final, e.width)
     /\ e.before = e.after
  /\ l' = l + 1
TraceInit == l = 1 /\ TLCSet(1, 1)
TraceSpec == TraceInit /\ [][Check]_l
Mark == IF l > TLCGet(1) THEN TLCSet(1, l) ELSE TRUE
TraceAccepted == IF TLCGet(1) = N + 1 THEN PrintT(<<"TRACE-ACCEPTED", N>>)
                 ELSE PrintT(<<"TRACE-REJECTED", TLCGet(1), N>>) /\ FALSE
=============================================================================
