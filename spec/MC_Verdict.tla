------------------------------ MODULE MC_Verdict ----------------------------
(***************************************************************************)
(* C06: the verdict of the default verifier on byte strings, enumerated    *)
(* by rule boundary.  The loader is a two-state machine: a candidate       *)
(* program is offered, then accepted or refused (Verifier!Verdict); each   *)
(* terminal state prints a REPLAY line replayed through new() and          *)
(* set_program() of every VM kind.                                         *)
(*   fam 1  every opcode byte x every register byte in 6 positions         *)
(*   fam 2  every jump / local-call opcode x displacement around the       *)
(*          program bounds and around a wide load                          *)
(*   fam 3  immediates of le/be/xadd/call, call kinds                      *)
(*   fam 4  length classes up to one instruction past the 1,000,000 limit  *)
(*   fam 5  far local calls and jumps in long programs                     *)
(*   fam 7  the same jump / call instruction twice in a row               *)
(*   fam 6  the second slot of a wide load: only its opcode byte (0) is    *)
(*          constrained, its register byte, offset and immediate are free  *)
(***************************************************************************)
EXTENDS Verifier, TLC, Json

CONSTANTS Fams, Seed, Rate

VARIABLES cand, phase, verdict
vars == <<cand, phase, verdict>>

Keep(h) == (h + Seed) % Rate = 0
MinI32 == -2147483647 - 1

Mov  == I(183, 0, 0, 0, 0)
Exit == I(EXIT, 0, 0, 0, 0)
Lddw1 == I(LDDW, 1, 0, 0, 5)
Zero  == I(0, 0, 0, 0, 0)
S1(i) == Seg(1, i)

\* a candidate: [id, prog (segments), extra (trailing bytes beyond whole slots)]
Cand(id, p, x) == [id |-> id, prog |-> p, extra |-> x]

\* ---- fam 1: opcode byte x register byte x position
X1(o, rb) == I(o, rb % 16, rb \div 16, 0, 0)
Pos1(pos, x) ==
  CASE pos = 1 -> << x, Exit >>                          \* first
    [] pos = 2 -> << Mov, x, Exit >>                     \* middle
    [] pos = 3 -> << x, Lddw1, Zero, Exit >>             \* before a wide load
    [] pos = 4 -> << Mov, x >>                           \* last
    [] pos = 5 -> << x, Zero, Exit >>                    \* followed by a zero slot
    [] pos = 6 -> << x, Mov, Exit >>                     \* followed by an ordinary instruction
Fam1Of(o) == { Cand(<<1, o, rb, pos>>, Flat(Pos1(pos, X1(o, rb))), 0) :
                 rb \in {x \in 0..255 : Keep(o + 7 * x)}, pos \in 1..6 }

\* ---- fam 2: displacement sweep.  slots: 0 mov 1 mov 2 lddw 3 (second) 4 mov 5 exit
JumpOps == {o \in 0..255 : IsJump(o)}
Base2 == << Mov, Mov, Lddw1, Zero, Mov, Exit >>
Disp == (-8..8) \cup {32767, -32768, 65536, -65536, 65541, 65534, 131072 + 3, MinI32, 2147483647}
Fam2Of(o) ==
  IF o \in JumpOps
  THEN { Cand(<<2, o, j, d>>, Flat([Base2 EXCEPT ![j+1] = I(o, 0, 1, d, 1)]), 0) :
           j \in {0, 1, 4}, d \in {x \in Disp : x >= -32768 /\ x <= 32767} }
  ELSE IF o = CALL
  THEN { Cand(<<2, o, j, d>>, Flat([Base2 EXCEPT ![j+1] = I(CALL, 0, 1, 0, d)]), 0) : j \in {0, 1, 4}, d \in Disp }
  ELSE {}

\* ---- fam 3: immediates and call kinds
Fam3 ==
  { Cand(<<3, o, m, 0>>, Flat(<< I(o, 1, 0, 0, m), Exit >>), 0) :
      o \in {LE, BE}, m \in {0, 8, 15, 16, 17, 24, 32, 33, 40, 48, 56, 63, 64, 65, 80, 96, 128, -16, -64, MinI32} } \cup
  { Cand(<<3, o, m, 0>>, Flat(<< I(o, 10, 1, -8, m), Exit >>), 0) :
      o \in {XADD_W, XADD_DW}, m \in {0, 1, -1, 16, MinI32} } \cup
  { Cand(<<3, CALL, k, m>>, Flat(<< I(CALL, 0, k, 0, m), Exit >>), 0) :
      k \in 0..15, m \in {0, 1, -1, 2147483647, MinI32} } \cup
  { Cand(<<3, TAIL_CALL, k, 0>>, Flat(<< I(TAIL_CALL, 0, k, 0, 0), Exit >>), 0) : k \in {0, 1} }

\* ---- fam 4: lengths (whole slots n, trailing bytes x)
Fam4 ==
  { Cand(<<4, n, x, 0>>, IF n = 0 THEN <<>> ELSE IF n = 1 THEN Flat(<<Exit>>) ELSE << Seg(n - 1, Mov), S1(Exit) >>, x) :
      n \in {0, 1, 2, 3, 999999, 1000000, 1000001, 1000002}, x \in 0..7 }

\* ---- fam 5: far targets in long programs (N fillers between)
Fam5 ==
  { Cand(<<5, o, N, d>>, << S1(IF o = CALL THEN I(CALL, 0, 1, 0, N + d) ELSE I(o, 0, 0, N + d, 0)), Seg(N, Mov), S1(Exit) >>, 0) :
      o \in {CALL}, N \in {32766, 32767, 65535, 65536, 999997}, d \in {-1, 0, 1, 2} } \cup
  { Cand(<<5, JA, N, d>>, << S1(I(JA, 0, 0, N + d, 0)), Seg(N, Mov), S1(Exit) >>, 0) :
      N \in {32760}, d \in {-1, 0, 1, 6, 7} }

\* ---- fam 6: contents of the second slot of a wide load
Fam6 ==
  { Cand(<<6, o2, rb, f>>, Flat(<< I(LDDW, 1, 0, 0, 5), I(o2, rb % 16, rb \div 16, f, m), Exit >>), 0) :
      o2 \in {0, 1, 24, 149, 255}, rb \in {0, 1, 16, 160, 171, 187, 255}, f \in {0, 1, -1, -32768}, m \in {0, -1} }

\* ---- fam 7: the same jump / local call twice in a row: the displacement that is fine for the first
\* copy leaves the program (d = 1) or lands on a second slot (d = 2) for the copy one slot further on
Fam7Of(o) ==
  IF o \in JumpOps
  THEN { Cand(<<7, o, d, 0>>, Flat(<< I(o, 0, 1, d, 1), I(o, 0, 1, d, 1), Exit >>), 0) : d \in {0, 1} } \cup
       { Cand(<<7, o, 2, 1>>, Flat(<< I(o, 0, 1, 2, 1), I(o, 0, 1, 2, 1), Lddw1, Zero, Exit >>), 0) }
  ELSE IF o = CALL
  THEN { Cand(<<7, o, d, 0>>, Flat(<< I(CALL, 0, 1, 0, d), I(CALL, 0, 1, 0, d), Exit >>), 0) : d \in {0, 1} }
  ELSE {}

\* one initial state per opcode byte (families 1, 2) or per small family, so that the bulk of
\* the enumeration happens in Next and is shared by TLC's workers
Seeds == (IF 1 \in Fams \/ 2 \in Fams \/ 7 \in Fams THEN { <<"op", o>> : o \in 0..255 } ELSE {})
         \cup (IF 3 \in Fams THEN { <<"f3", 0>> } ELSE {})
         \cup (IF 4 \in Fams THEN { <<"f4", 0>> } ELSE {})
         \cup (IF 5 \in Fams THEN { <<"f5", 0>> } ELSE {})
         \cup (IF 6 \in Fams THEN { <<"f6", 0>> } ELSE {})

CandsOf(s) ==
  IF s[1] = "op" THEN (IF 1 \in Fams THEN Fam1Of(s[2]) ELSE {}) \cup (IF 2 \in Fams THEN Fam2Of(s[2]) ELSE {})
                      \cup (IF 7 \in Fams THEN Fam7Of(s[2]) ELSE {})
  ELSE IF s[1] = "f3" THEN Fam3 ELSE IF s[1] = "f4" THEN Fam4 ELSE IF s[1] = "f5" THEN Fam5 ELSE Fam6

Init == \E s \in Seeds : cand = s /\ phase = "seed" /\ verdict = FALSE
Offer == /\ phase = "seed"
         /\ \E c \in CandsOf(cand) : cand' = c
         /\ phase' = "offered" /\ verdict' = FALSE
Decide == /\ phase = "offered"
          /\ verdict' = Verdict(8 * PLen(cand.prog) + cand.extra, cand.prog)
          /\ phase' = "decided" /\ cand' = cand
Next == Offer \/ Decide
Spec == Init /\ [][Next]_vars

ProgOut(p) == [k \in 1..Len(p) |-> <<p[k].n, <<p[k].i.opc, p[k].i.dst, p[k].i.src, p[k].i.off, p[k].i.imm>>>>]
Emit == phase = "decided" =>
          PrintT("REPLAY " \o ToJson([kind |-> "verdict", id |-> cand.id, prog |-> ProgOut(cand.prog),
                                      extra |-> cand.extra, accept |-> verdict,
                                      violated |-> IF cand.extra = 0 /\ Len(cand.prog) > 0 THEN Violated(cand.prog) ELSE {"len"}]))
\* a refusal always has a named reason, an acceptance none (the rules are the whole predicate)
Explained == phase = "decided" /\ cand.extra = 0 /\ Len(cand.prog) > 0 => (verdict <=> Violated(cand.prog) = {})
Inv == Emit /\ Explained
=============================================================================
