CONSTANTS NB = 2 LB = 3
SPECIFICATION Spec
INVARIANT AllOK
CHECK_DEADLOCK FALSE
