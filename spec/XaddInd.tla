------------------------------- MODULE XaddInd -------------------------------
(***************************************************************************)
(* C18, beyond the bounds TLC can enumerate: an inductive invariant of the *)
(* atomic-add design, discharged by Apalache (SMT) for                     *)
(*   - the real word width (M = 2^64, and M = 2^32),                       *)
(*   - ANY addends and ANY number K of adds per process (K is an           *)
(*     unconstrained constant),                                            *)
(*   - NP = 4 concurrent executions (Apalache needs a fixed process set).  *)
(* `sum` is a ghost variable: the mathematical sum of all addends whose    *)
(* atomic add has been performed.  NoLostUpdate: the word always equals    *)
(* the initial value plus that sum, modulo M - every performed update is   *)
(* reflected, none is lost; the neighbour words never change.              *)
(* Checked with:                                                           *)
(*   apalache-mc check --cinit=ConstInit --init=Init    --inv=IndInv --length=0 XaddInd.tla *)
(*   apalache-mc check --cinit=ConstInit --init=IndInit --inv=IndInv --length=1 XaddInd.tla *)
(***************************************************************************)
EXTENDS Integers

CONSTANTS
  \* @type: Int;
  M,
  \* @type: Int;
  K,
  \* @type: Int;
  Init0,
  \* @type: Int -> Int;
  Addend

VARIABLES
  \* @type: Int;
  left,
  \* @type: Int;
  word,
  \* @type: Int;
  right,
  \* @type: Int -> Int;
  done,
  \* @type: Int;
  sum

Procs == 1..4

ConstInit ==
  /\ M \in {4294967296, 18446744073709551616}
  /\ K \in Nat
  /\ Init0 \in Int /\ 0 <= Init0 /\ Init0 < M
  /\ Addend \in [Procs -> Int]
  /\ \A p \in Procs : 0 <= Addend[p] /\ Addend[p] < M

Init ==
  /\ left = 5 /\ right = 6 /\ word = Init0
  /\ done = [p \in Procs |-> 0]
  /\ sum = 0

AtomicAdd(p) ==
  /\ done[p] < K
  /\ word' = (word + Addend[p]) % M
  /\ done' = [done EXCEPT ![p] = @ + 1]
  /\ sum' = sum + Addend[p]
  /\ UNCHANGED <<left, right>>

Stutter == UNCHANGED <<left, word, right, done, sum>>
Next == (\E p \in Procs : AtomicAdd(p)) \/ Stutter

TypeOK ==
  /\ word \in Int /\ 0 <= word /\ word < M
  /\ done \in [Procs -> Nat]
  /\ \A p \in Procs : done[p] <= K
  /\ sum \in Nat

NoLostUpdate == word = (Init0 + sum) % M
NeighboursUntouched == left = 5 /\ right = 6

IndInv == TypeOK /\ NoLostUpdate /\ NeighboursUntouched
\* the inductive step starts from an arbitrary state satisfying the invariant
IndInit == IndInv
=============================================================================
