----------------------------- MODULE MachineCF ------------------------------
(***************************************************************************)
(* Control-flow abstraction of Machine.tla: registers and memory are       *)
(* dropped; the state is the program counter, the stack of return          *)
(* addresses and the status.  Every conditional jump may go either way,    *)
(* every memory access and helper call may succeed or fail.  It therefore  *)
(* over-approximates Machine for ALL register and memory contents, helper  *)
(* sets and inputs: if no well-formed program can get stuck here, none can *)
(* in Machine (C05).  That Machine refines MachineCF is itself checked by  *)
(* TLC (MC_Exec, property CFRefinement).                                   *)
(***************************************************************************)
EXTENDS Verifier

VARIABLES cfprog, cfpc, cfstack, cfstatus
cfvars == <<cfprog, cfpc, cfstack, cfstatus>>

CFMaxDepth == 8

CFRegsOK(i) == (UsesDst(i.opc) => i.dst <= 10) /\ (UsesSrc(i.opc) /\ i.opc # CALL => i.src <= 10)

\* why the state is stuck, or "" if some instruction semantics applies
CFStuckReason ==
  IF ~InProg(cfprog, cfpc) THEN "pc_outside"
  ELSE IF ~RealAt(cfprog, cfpc) THEN "second_slot"
  ELSE LET i == At(cfprog, cfpc) IN
       IF i.opc \notin Supported THEN "opcode"
       ELSE IF ~CFRegsOK(i) THEN "register"
       ELSE IF IsEndian(i.opc) /\ i.imm \notin {16, 32, 64} THEN "endian"
       ELSE IF i.opc = LDDW /\ ~InProg(cfprog, cfpc + 1) THEN "lddw"
       ELSE ""

CFHalt(st) == cfstatus' = st /\ UNCHANGED <<cfprog, cfpc, cfstack>>
CFGoto(t)  == cfpc' = t /\ UNCHANGED <<cfprog, cfstack, cfstatus>>

CFStep ==
  /\ cfstatus = "run"
  /\ IF CFStuckReason # "" THEN CFHalt("stuck")
     ELSE LET i == At(cfprog, cfpc)
              o == i.opc
          IN IF o = LDDW THEN CFGoto(cfpc + 2)
             ELSE IF o = JA THEN CFGoto(cfpc + 1 + i.off)
             ELSE IF IsCondJmp(o) \/ IsCondJmp32(o) THEN CFGoto(cfpc + 1) \/ CFGoto(cfpc + 1 + i.off)
             ELSE IF IsLdx(o) \/ IsLdAbs(o) \/ IsLdInd(o) \/ IsSt(o) \/ IsStx(o) \/ IsXadd(o)
                  THEN CFGoto(cfpc + 1) \/ CFHalt("err")
             ELSE IF o = CALL /\ i.src = 0 THEN CFGoto(cfpc + 1) \/ CFHalt("err")
             ELSE IF o = CALL /\ i.src = 1 THEN
                     IF Len(cfstack) >= CFMaxDepth THEN CFHalt("err")
                     ELSE /\ cfstack' = Append(cfstack, cfpc + 1)
                          /\ cfpc' = cfpc + 1 + i.imm
                          /\ UNCHANGED <<cfprog, cfstatus>>
             ELSE IF o = CALL THEN CFHalt("err")
             ELSE IF o = EXIT THEN
                     IF cfstack = <<>> THEN CFHalt("ok")
                     ELSE /\ cfpc' = cfstack[Len(cfstack)]
                          /\ cfstack' = SubSeq(cfstack, 1, Len(cfstack) - 1)
                          /\ UNCHANGED <<cfprog, cfstatus>>
             ELSE CFGoto(cfpc + 1)                      \* ALU, byte swap
\* (the instruction budget of Machine ends a run with an error at any point)
CFBudget == cfstatus = "run" /\ CFHalt("err")

CFInit(p) == cfprog = p /\ cfpc = 0 /\ cfstack = <<>> /\ cfstatus = "run"
CFNext == CFStep \/ CFBudget
CFNoStuck == cfstatus # "stuck"
=============================================================================
