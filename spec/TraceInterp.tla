---------------------------- MODULE TraceInterp -----------------------------
(***************************************************************************)
(* Trace validation (implementation -> specification): executions of the   *)
(* real interpreter, recorded by the step hook H1, are checked to be       *)
(* behaviours of Machine.tla - every register of every intermediate state, *)
(* every helper call, the final value / error and the final memory.        *)
(*                                                                         *)
(* The trace is NDJSON (IOEnv.TRACE); many runs are concatenated:          *)
(*   start   the case (Exec.tla format) plus the real addresses of the     *)
(*           buffers the implementation allocated itself (stack, internal  *)
(*           metadata buffer) and the initial register file                *)
(*   step    the state BEFORE the instruction at pc executes: pc, regs      *)
(*   helper  a helper was invoked: id, arguments, value it returned         *)
(*   end     how execute_program returned, and the final memory            *)
(* Each trace action = event match /\ logged fields bound /\ Machine step. *)
(* Nothing is adopted from the trace except what the properties leave      *)
(* open: the initial register file, real addresses, helper return values   *)
(* and r1-r5 after a helper call.                                          *)
(***************************************************************************)
EXTENDS Exec, Json, IOUtils, TLCExt

Rec == ndJsonDeserialize(IOEnv.TRACE)
N == Len(Rec)

CONSTANTS TraceDevs,    \* keys of recorded known findings whose deviation actions are enabled
          CheckEngines  \* the compiled engines whose recorded results must agree: subset of {"jit", "cl"} (C03, C04)

VARIABLES l,
          devs,      \* number of deviation steps taken so far (reported, never hidden)
          rundevs    \* ... of which in the current run
NoFszT == [dflt |-> 256, tab |-> <<>>]
tvars == <<mvars, l, devs, rundevs>>

Ev(k) == Rec[k]
IsEv(k, name) == k <= N /\ Ev(k).e = name

\* a JSON program [[n, [opc,dst,src,off,imm]], ...] as segments
SegsOf(p) == [k \in 1..Len(p) |-> Seg(p[k][1], I(p[k][2][1], p[k][2][2], p[k][2][3], p[k][2][4], p[k][2][5]))]

CaseOf(c) ==
  [id |-> c.id, fam |-> c.fam, vm |-> c.vm, prog |-> SegsOf(c.prog),
   pkt |-> c.pkt, mbuf |-> c.mbuf, fixed |-> c.fixed, allow |-> c.allow,
   helpers |-> {c.helpers[k] : k \in 1..Len(c.helpers)},
   fsz |-> c.fsz, calc |-> c.calc, budget |-> c.budget, dev |-> {c.dev[k] : k \in 1..Len(c.dev)}, warm |-> 0]

\* the environment of the recorded run: real bases replace the fictitious ones
TraceEnv(s) ==
  LET c == CaseOf(s.case)
      e == EnvFor(c)
  IN [e EXCEPT !.base = [r \in 1..Len(e.base) |->
                            IF r = R_STACK THEN s.stack
                            ELSE IF r = R_MBUF /\ c.vm = "fixed" THEN s.imbuf
                            ELSE e.base[r]]]

\* the fixed-metadata VM's buffer as the implementation filled it (pointers are real addresses,
\* already equal to the case's because the packet is mapped where the case says)
TraceStart ==
  /\ IsEv(l, "start")
  /\ LET s == Ev(l)
         c == CaseOf(s.case)
     IN /\ env' = TraceEnv(s)
        /\ mem' = MemFor(c)
        /\ pc' = 0
        /\ reg' = [r \in 0..10 |-> s.regs[r+1]]
        /\ rt' = [r \in 0..10 |-> IF r = 10 THEN "s" ELSE IF r = 1 THEN R1Taint(c) ELSE "u"]
        /\ sw' = {}
        /\ frames' = <<>>
        /\ curFn' = 0
        /\ status' = [k |-> "run", class |-> "", val |-> Zero]
        /\ hlog' = <<>>
        /\ defd' = TRUE
        /\ steps' = 0
        \* C09: what the VM kind must present at entry
        /\ s.regs[2] = R1ForBases(c, TraceEnv(s).base)
        /\ s.regs[11] = AddN(s.stack, StackSize)
  /\ l' = l + 1
  /\ rundevs' = 0
  /\ UNCHANGED devs

\* the answer of the environment to a helper call made by this step: taken from the trace
HelperFollows == IsEv(l + 1, "helper")
TraceAnswer ==
  IF HelperFollows
  THEN [ret |-> Ev(l+1).ret,
        clob |-> IF IsEv(l + 2, "step") THEN [r \in 1..5 |-> Ev(l+2).regs[r+1]] ELSE [r \in 1..5 |-> reg[r]],
        \* the bytes the helper wrote, as recorded ([addr, bytes] each)
        wr |-> IF "wr" \in DOMAIN Ev(l+1) THEN Ev(l+1).wr ELSE << >>]
  ELSE [ret |-> Zero, clob |-> [r \in 1..5 |-> reg[r]], wr |-> << >>]

\* the machine step under deviation set D, bound to the logged fields
TraceStepWith(D) ==
  /\ IsEv(l, "step")
  /\ Running
  /\ Ev(l).pc = pc
  /\ \A r \in 0..10 : Ev(l).regs[r+1] = reg[r]
  /\ Ev(l).depth = Len(frames)
  /\ StepD(TraceAnswer, D)
  \* a helper event follows iff this step invoked a helper, with exactly these arguments
  /\ IF Len(hlog') > Len(hlog)
     THEN /\ HelperFollows
          /\ Ev(l+1).id = Cur.imm
          /\ \A k \in 1..5 : Ev(l+1).args[k] = reg[k]
          /\ l' = l + 2
     ELSE /\ ~HelperFollows
          /\ l' = l + 1

TraceStep == TraceStepWith({}) /\ UNCHANGED <<devs, rundevs>>

\* Named deviation action (DESIGN.md 7.4): the pinned interpreter zero-extends the immediate of
\* the 64-bit jeq/jne/jgt/jge/jlt/jle.  Enabled only if that finding is recorded (TraceDevs), only
\* on such an instruction with a negative immediate, and only when zero-extension changes the
\* branch taken; every use is counted and reported as a KNOWN-FINDING.
JmpDevMatters ==
  /\ InProg(Prog, pc) /\ RealAt(Prog, pc)
  /\ LET i == Cur IN
     /\ Dev_JmpImmZeroExt(i, {"jmp_imm_zext"}) /\ i.imm < 0
     /\ Cond(Op(i.opc), TRUE, reg[i.dst], ImmWord(i)) # Cond(Op(i.opc), TRUE, reg[i.dst], ImmZ(i))
TraceStepDev_JmpImmZeroExt ==
  /\ "jmp_imm_zext" \in TraceDevs
  /\ JmpDevMatters
  /\ TraceStepWith({"jmp_imm_zext"})
  /\ devs' = devs + 1 /\ rundevs' = rundevs + 1

\* runs recorded from /repo's own tests may have been loaded under a verifier of the test's own
OwnVerifierPossible == env.c.fam = "repo-tests"

\* the run is over: the machine must have stopped in the same way, with the same memory
SameMem(e) ==
  /\ e.pkt = mem[R_PKT]
  /\ (env.c.vm = "mbuff" => e.mbuf = mem[R_MBUF])
  /\ \A k \in 1..Len(e.allow) : e.allow[k] = mem[3 + k]
  \* the interpreter's own stack, all 512 bytes (empty: no instruction ran)
  /\ (Len(e.stack) > 0 => e.stack = mem[R_STACK])

\* C03 / C04 (direction A): when the specification judges the run defined, a compiled engine that
\* was run on the same program and input returned the same value and left the same bytes
EngineAgrees(x, isJit) ==
  x.k = "skipped" \/ ~defd \/
  (isJit /\ HasLocalCall(Prog)) \/   \* recorded finding jit_r10: JIT frames alias (decided by the calls family, C07/C03)
  rundevs > 0 \/            \* the interpreter took a recorded deviation step in this run (reported as such)
  (/\ x.k = "ok" /\ x.val = status.val /\ x.pkt = mem[R_PKT]
   /\ (env.c.vm = "mbuff" => x.mbuf = mem[R_MBUF]))

TraceEnd ==
  /\ IsEv(l, "end")
  /\ LET e == Ev(l) IN
     \/ /\ e.k = "ok" /\ status.k = "ok" /\ e.val = status.val /\ SameMem(e)
        /\ ("jit" \in CheckEngines => EngineAgrees(e.jit, TRUE))
        /\ ("cl" \in CheckEngines => EngineAgrees(e.cl, FALSE))
     \/ /\ e.k = "err" /\ status.k = "err" /\ SameMem(e)
        /\ (e.class = "budget") = (status.class = "budget")
     \* a program that is NOT well formed (a test may install its own verifier) reached a point
     \* where no instruction semantics applies: every claim is about well-formed programs, the
     \* implementation must only not crash (it returned an error value)
     \/ /\ e.k = "err" /\ status.k = "stuck" /\ OwnVerifierPossible /\ ~WellFormed(Prog)
     \* the hook refused the next instruction: the machine is at its budget
     \/ /\ e.k = "err" /\ e.class = "budget" /\ Running
        /\ env.budget > 0 /\ steps >= env.budget /\ SameMem(e)
  /\ l' = l + 1
  /\ UNCHANGED <<mvars, devs, rundevs>>

(***************************************************************************)
(* Runs of compiled code recorded while /repo's own tests ran (hook H5):   *)
(* only the inputs and the result are observable.  EngStart sets the       *)
(* machine up from the recorded inputs (as Exec!InitFor does), Silent      *)
(* steps it without consuming an event, EngEnd compares the recorded       *)
(* result when the specification judges the run defined (C03 / C04: the    *)
(* compiled engines agree with the ISA semantics; run-time errors of the   *)
(* specification are outside the compiled engines' claim).                 *)
(***************************************************************************)
EngStart ==
  /\ IsEv(l, "estart")
  /\ LET c == CaseOf(Ev(l).case)
         e == EnvFor(c)
     IN /\ env' = e
        /\ mem' = MemFor(c)
        /\ pc' = 0
        /\ reg' = [r \in 0..10 |-> IF r = 1 THEN R1For(c)
                                    ELSE IF r = 10 THEN AddN(e.base[R_STACK], StackSize) ELSE Zero]
        /\ rt' = [r \in 0..10 |-> IF r = 1 THEN R1Taint(c) ELSE IF r = 10 THEN "s" ELSE "u"]
        /\ sw' = {} /\ frames' = <<>> /\ curFn' = 0
        /\ status' = [k |-> "run", class |-> "", val |-> Zero]
        /\ hlog' = <<>> /\ defd' = TRUE /\ steps' = 0
  /\ l' = l + 1
  /\ rundevs' = 0
  /\ UNCHANGED devs

SilentBound == 300000
Silent ==
  /\ IsEv(l, "eend")
  /\ Running /\ steps < SilentBound
  /\ StepD([ret |-> Zero, clob |-> [r \in 1..5 |-> reg[r]], wr |-> << >>], {})
  /\ UNCHANGED <<l, devs, rundevs>>

EngEnd ==
  /\ IsEv(l, "eend")
  /\ ~Running
  /\ LET e == Ev(l) IN
       (status.k = "ok" /\ defd /\ ~(e.engine = "jit" /\ HasLocalCall(Prog)))
         => /\ e.k = "ok" /\ e.val = status.val
            /\ e.pkt = mem[R_PKT]
            /\ (env.c.vm = "mbuff" => e.mbuf = mem[R_MBUF])
  /\ l' = l + 1
  /\ UNCHANGED <<mvars, devs, rundevs>>

TraceInit ==
  /\ l = 1
  /\ devs = 0 /\ rundevs = 0
  /\ TLCSet(1, 1) /\ TLCSet(2, 0)
  /\ env = [prog |-> <<>>, base |-> <<>>, helpers |-> {}, fsz |-> NoFszT, budget |-> 0, dev |-> {}, c |-> [vm |-> "none", fam |-> ""], entries |-> {}]
  /\ mem = <<>> /\ pc = 0 /\ reg = [r \in 0..10 |-> Zero] /\ rt = [r \in 0..10 |-> "u"]
  /\ sw = {} /\ frames = <<>> /\ curFn = 0
  /\ status = [k |-> "idle", class |-> "", val |-> Zero]
  /\ hlog = <<>> /\ defd = TRUE /\ steps = 0

TraceNext == TraceStart \/ TraceStep \/ TraceStepDev_JmpImmZeroExt \/ TraceEnd \/ EngStart \/ Silent \/ EngEnd
TraceSpec == TraceInit /\ [][TraceNext]_tvars

\* high-water mark of the trace position (register 1), read by the postcondition
Mark == IF l > TLCGet(1) THEN TLCSet(1, l) /\ TLCSet(2, devs) ELSE TRUE
TraceAccepted ==
  LET m == TLCGet(1) IN
  IF m = N + 1 THEN PrintT(<<"TRACE-ACCEPTED", N, "deviation-steps", TLCGet(2)>>)
  ELSE /\ PrintT(<<"TRACE-REJECTED", m, N>>)
       /\ FALSE

\* every invariant of the design is evaluated in every state the implementation went through
TraceInv == /\ Mark
            /\ status.k \in {"run", "ok", "err"} => (DepthBound /\ FramePointerOK)
            \* C05: a program the default verifier accepted never gets stuck
            /\ (NoStuck \/ (OwnVerifierPossible /\ ~WellFormed(Prog)))
=============================================================================
