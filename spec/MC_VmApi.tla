------------------------------ MODULE MC_VmApi ------------------------------
(* Complete state graph of VmApi for one VM kind; invariants + the no-op action property. *)
EXTENDS VmApi
=============================================================================
