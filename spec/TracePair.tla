------------------------------ MODULE TracePair ------------------------------
(***************************************************************************)
(* C20: two transcripts of the same corpus - one produced by the crate     *)
(* built with the standard library, one by the crate built without - must  *)
(* be the same line by line; where the specification states the answer     *)
(* (assembler output, verifier verdict, interpreter result: computed by    *)
(* TLC in MC_Text / MC_Verdict / MC_Exec and passed as the third           *)
(* transcript) both must equal it, so that agreement is never agreement on *)
(* a common error.  Lines: {n, t, out}; an empty expected "out" = none.    *)
(***************************************************************************)
EXTENDS Naturals, Sequences, Json, IOUtils, TLC, TLCExt

A == ndJsonDeserialize(IOEnv.TRACE_STD)
B == ndJsonDeserialize(IOEnv.TRACE_NOSTD)
E == ndJsonDeserialize(IOEnv.TRACE_SPEC)
N == Len(E)
VARIABLE l

Same ==
  /\ l <= N
  /\ Len(A) = N /\ Len(B) = N
  /\ A[l].n = E[l].n /\ B[l].n = E[l].n /\ A[l].t = E[l].t /\ B[l].t = E[l].t
  /\ A[l].out = B[l].out
  /\ A[l].out \notin {"panic", "crash"}
  /\ (E[l].out # "" => A[l].out = E[l].out)
  /\ l' = l + 1
TraceInit == l = 1 /\ TLCSet(1, 1)
TraceSpec == TraceInit /\ [][Same]_l
Mark == IF l > TLCGet(1) THEN TLCSet(1, l) ELSE TRUE
TraceAccepted == IF TLCGet(1) = N + 1 THEN PrintT(<<"TRACE-ACCEPTED", N>>)
                 ELSE PrintT(<<"TRACE-REJECTED", TLCGet(1), N>>) /\ FALSE
=============================================================================
