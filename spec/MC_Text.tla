------------------------------- MODULE MC_Text -------------------------------
(***************************************************************************)
(* Case generator / bounded model for the textual tools:                   *)
(*   asm     C13/C14  token programs -> bytes or error (Asm!Assemble)      *)
(*   disasm  C15/C16  byte programs -> entries (Disasm!HL), their          *)
(*           reassembly, and the round-trip law checked in every state     *)
(* Two-phase machine as in MC_Verdict: a case is offered, then decided.    *)
(***************************************************************************)
EXTENDS Disasm, TLC, Json

CONSTANTS Fams, Seed, Rate
VARIABLES cand, phase, result
vars == <<cand, phase, result>>
Keep(h) == (h + Seed) % Rate = 0

\* ---- literal constructors -------------------------------------------------
RECURSIVE NatDigs(_, _)
NatDigs(n, base) == IF n < base THEN <<n>> ELSE NatDigs(n \div base, base) \o <<n % base>>
\* a TLC integer as a literal: spelling sp in 1..4 = decimal, hex, "+"decimal, hex with sign
LitOfInt(v, sp) ==
  LET neg == v < 0
      mag == IF neg THEN -(v + 1) ELSE v          \* avoid -MinI32
      digs(base) == IF neg THEN (IF mag = 2147483647 THEN (IF base = 10 THEN <<2,1,4,7,4,8,3,6,4,8>> ELSE <<8,0,0,0,0,0,0,0>>)
                                 ELSE NatDigs(mag + 1, base))
                    ELSE NatDigs(mag, base)
  IN CASE sp = 1 -> Lit(IF neg THEN "-" ELSE "", FALSE, digs(10))
       [] sp = 2 -> Lit(IF neg THEN "-" ELSE "", TRUE, digs(16))
       [] sp = 3 -> Lit(IF neg THEN "-" ELSE "+", FALSE, digs(10))
       [] sp = 4 -> Lit(IF neg THEN "-" ELSE "+", TRUE, digs(16))
RegOf(n) == Reg(Lit("", FALSE, NatDigs(n, 10)))
IntOf(v, sp) == IntOp(LitOfInt(v, sp))
MemOf(n, f, sp) == Mem(Lit("", FALSE, NatDigs(n, 10)), IF f = 0 /\ sp = 1 THEN NoLit ELSE LitOfInt(f, IF sp <= 2 THEN sp + 2 ELSE sp))
\* fix-up: memory offsets need an explicit sign
SignedLit(l) == IF l.sign = "" THEN [l EXCEPT !.sign = "+"] ELSE l
MemOp(n, f, sp) == LET m == MemOf(n, f, sp) IN IF m.off = NoLit THEN m ELSE [m EXCEPT !.off = SignedLit(@)]

MinI32 == -2147483647 - 1
Regs  == {0, 9, 10, 15, 16, 99}
Offs  == {0, 1, -1, 127, 128, -128, -129, 32767, -32768, 32768, -32769}
Imms  == {0, 1, -1, 16, 255, 65536, 2147483647, MinI32}
\* literals outside the range of TLC integers, as digit strings
BigLits == << Lit("", FALSE, <<2,1,4,7,4,8,3,6,4,8>>),                       \* 2^31
              Lit("-", FALSE, <<2,1,4,7,4,8,3,6,4,9>>),                      \* -2^31-1
              Lit("", TRUE, <<8,0,0,0,0,0,0,0>>),                            \* 0x80000000
              Lit("", TRUE, <<15,15,15,15,15,15,15,15>>),                    \* 0xffffffff
              Lit("", FALSE, <<9,2,2,3,3,7,2,0,3,6,8,5,4,7,7,5,8,0,7>>),     \* 2^63-1
              Lit("", FALSE, <<9,2,2,3,3,7,2,0,3,6,8,5,4,7,7,5,8,0,8>>),     \* 2^63
              Lit("-", FALSE, <<9,2,2,3,3,7,2,0,3,6,8,5,4,7,7,5,8,0,8>>),    \* -2^63
              Lit("-", FALSE, <<9,2,2,3,3,7,2,0,3,6,8,5,4,7,7,5,8,0,9>>),    \* -2^63-1
              Lit("", TRUE, <<15,15,15,15,15,15,15,15,15,15,15,15,15,15,15,15>>),   \* 0xffffffffffffffff
              Lit("-", TRUE, <<8,0,0,0,0,0,0,0,0,0,0,0,0,0,0,0>>),           \* -0x8000000000000000
              Lit("", TRUE, <<1,0,0,0,0,0,0,0,0,0,0,0,0,0,0,0,0>>),          \* 0x1 0000000000000000 (17 digits)
              Lit("", TRUE, <<0,0,0,0,0,0,0,0,0,0,0,0,0,0,0,0,0,1>>),        \* 18 digits, value 1
              Lit("", TRUE, <<1,1,2,2,3,3,4,4,5,5,6,6,7,7,8,8>>),            \* 0x1122334455667788
              Lit("", FALSE, [k \in 1..20 |-> 9]), Lit("-", FALSE, [k \in 1..25 |-> 9]),
              Lit("", FALSE, [k \in 1..39 |-> 9]), Lit("", FALSE, [k \in 1..40 |-> 9]),
              Lit("", TRUE, [k \in 1..20 |-> 15]),
              \* in-range values written with many leading zeros (decimal, 25 and 40 digits; hex, 30 digits)
              Lit("", FALSE, [k \in 1..25 |-> IF k = 25 THEN 7 ELSE 0]), Lit("-", FALSE, [k \in 1..40 |-> IF k >= 39 THEN 1 ELSE 0]),
              Lit("+", FALSE, [k \in 1..22 |-> IF k >= 20 THEN 9 ELSE 0]), Lit("-", TRUE, [k \in 1..30 |-> IF k = 30 THEN 2 ELSE 0]),
              \* values that are small modulo 2^32 (a truncating cast would make them look in range)
              Lit("", FALSE, <<4,2,9,4,9,6,7,2,9,7>>),                       \* 2^32 + 1
              Lit("", TRUE, <<1,0,0,0,0,0,0,0,1>>),                          \* 0x100000001
              Lit("-", FALSE, <<4,2,9,4,9,6,7,2,9,5>>),                      \* -(2^32 - 1)
              Lit("", TRUE, <<1,0,0,0,0,0,0,0,0>>),                          \* 0x100000000
              Lit("", FALSE, <<6,5,5,3,7>>), Lit("-", FALSE, <<6,5,5,3,5>>) >>   \* 2^16 + 1, -(2^16 - 1): small modulo 2^16

Ins(mn, ops) == [mn |-> mn, ops |-> ops]

\* the canonical operand list of each shape, from registers d, s, offset f, immediate m
ShapeOps(sh, d, s, f, m, sp) ==
  CASE sh = "alu"   -> << <<RegOf(d), RegOf(s)>>, <<RegOf(d), IntOf(m, sp)>> >>
    [] sh = "unary" -> << <<RegOf(d)>> >>
    [] sh = "ldabs" -> << <<IntOf(m, sp)>> >>
    [] sh = "ldind" -> << <<RegOf(s), IntOf(m, sp)>> >>
    [] sh = "ldx"   -> << <<RegOf(d), MemOp(s, f, sp)>> >>
    [] sh = "stx"   -> << <<MemOp(d, f, sp), RegOf(s)>> >>
    [] sh = "st"    -> << <<MemOp(d, f, sp), IntOf(m, sp)>> >>
    [] sh = "noop"  -> << <<>> >>
    [] sh = "ja"    -> << <<IntOf(f, sp)>> >>
    [] sh = "jcc"   -> << <<RegOf(d), RegOf(s), IntOf(f, sp)>>, <<RegOf(d), IntOf(m, sp), IntOf(f, sp)>> >>
    [] sh = "call"  -> << <<IntOf(m, sp)>> >>
    [] sh = "callx" -> << <<IntOf(m, sp)>> >>
    [] sh = "lddw"  -> << <<RegOf(d), IntOf(m, sp)>> >>
    [] OTHER        -> << <<RegOf(d)>> >>            \* byte swaps

Shapes == {"alu", "unary", "ldabs", "ldind", "ldx", "stx", "st", "noop", "ja", "jcc", "call", "callx", "lddw", "end16"}

\* ---- asm families ---------------------------------------------------------
\* A1: every mnemonic, its own shape(s), boundary operands, spellings
AsmA1(mn) ==
  LET sh == Entry(mn)[2] IN
  { <<"a1", <<Ins(mn, ShapeOps(sh, t[1], t[2], t[3], t[4], t[5])[v])>> >> :
      t \in { x \in Regs \X {0, 10, 15} \X Offs \X Imms \X (1..4) :
                 Keep(x[1] + 3 * x[2] + 5 * (x[3] % 97) + 7 * (x[4] % 89) + 11 * x[5]) },
      v \in 1..Len(ShapeOps(sh, 0, 0, 0, 0, 1)) }
\* A2: every mnemonic with the operand lists of every other shape
AsmA2(mn) ==
  { <<"a2", <<Ins(mn, ShapeOps(x[1], 1, 2, 4, 5, 2)[x[2]])>> >> :
      x \in { y \in Shapes \X {1, 2} : y[2] <= Len(ShapeOps(y[1], 1, 2, 4, 5, 2)) } }
  \cup { <<"a2", <<Ins(mn, <<>>)>> >>, <<"a2", <<Ins(mn, <<RegOf(1), RegOf(2), RegOf(3), RegOf(4)>>)>> >> }
\* A3: names that are not mnemonics
BadNames == {"foo", "add16", "exit64", "ja64", "jeq64", "lddw64", "mov3264", "be1664", "le8", "ldxq", "stxxaddw", "r1", "callx64", "neg3264"}
AsmA3 == { <<"a3", <<Ins(mn, ops)>> >> : mn \in BadNames,
            ops \in { <<>>, <<RegOf(1)>>, <<RegOf(1), RegOf(2)>>, <<RegOf(1), IntOf(2, 1)>>, <<IntOf(1, 1)>>,
                      <<RegOf(1), MemOp(2, 4, 1)>>, <<RegOf(1), IntOf(2, 1), IntOf(1, 3)>> } }
\* A6: every mnemonic, and every stem either tool spells, followed by every size / width suffix:
\* whatever is not in the table is not a mnemonic, with any operand list (in particular the one the
\* stem's family takes)
Sufs == {"b", "h", "w", "dw", "32", "64", "16", "8", "q", "x"}
ExtraStems == {"stxxadd", "xadd", "stxadd", "ldx", "stx", "st", "ldabs", "ldind", "ld", "j", "be", "le", "call", "lddw"}
SysBadNames(S) == { n \in { m \o sf : m \in S, sf \in Sufs } : n \notin Mnemonics }
A6Ops == { <<>>, <<RegOf(1)>>, <<RegOf(1), RegOf(2)>>, <<RegOf(1), IntOf(2, 1)>>, <<IntOf(1, 1)>>,
           <<RegOf(1), MemOp(2, 4, 1)>>, <<MemOp(2, 4, 1), RegOf(1)>>, <<MemOp(2, 4, 1), IntOf(3, 1)>>,
           <<RegOf(1), IntOf(2, 1), IntOf(1, 3)>>, <<RegOf(1), RegOf(2), IntOf(1, 3)>> }
AsmA6 == { <<"a6", <<Ins(mn, ops)>> >> : mn \in SysBadNames(ExtraStems), ops \in A6Ops } \cup
         { <<"a6", <<Ins(mn, ops)>> >> : mn \in SysBadNames(Mnemonics),
                                          ops \in { <<>>, <<RegOf(1), RegOf(2)>>, <<MemOp(2, 4, 1), RegOf(1)>>, <<RegOf(1), IntOf(2, 1), IntOf(1, 3)>> } }
\* A4: several instructions: order, an error anywhere fails the whole, names starting with r after exit
Seqs == { << Ins("mov", <<RegOf(0), IntOf(1, 1)>>), Ins("exit", <<>>) >>,
          << Ins("exit", <<>>), Ins("mov", <<RegOf(0), IntOf(1, 1)>>) >>,
          << Ins("exit", <<>>), Ins("rsh", <<RegOf(1), IntOf(2, 1)>>), Ins("exit", <<>>) >>,
          << Ins("exit", <<>>), Ins("rsh32", <<RegOf(1), RegOf(2)>>) >>,
          << Ins("lddw", <<RegOf(1), IntOp(BigLits[13])>>), Ins("ja", <<IntOf(-3, 1)>>), Ins("exit", <<>>) >>,
          << Ins("mov", <<RegOf(0), IntOf(1, 1)>>), Ins("foo", <<>>), Ins("exit", <<>>) >>,
          << Ins("mov", <<RegOf(0), IntOf(1, 1)>>), Ins("mov", <<RegOf(16), IntOf(1, 1)>>) >>,
          << Ins("stxdw", <<MemOp(10, -8, 1), RegOf(1)>>), Ins("ldxdw", <<RegOf(0), MemOp(10, -8, 2)>>), Ins("exit", <<>>) >>,
          << Ins("neg", <<RegOf(3)>>), Ins("be16", <<RegOf(3)>>), Ins("callx", <<IntOf(2, 1)>>), Ins("call", <<IntOf(-1, 2)>>) >> }
AsmA4 == { <<"a4", s>> : s \in Seqs }
\* A5 (C14): numeric literal classes in every operand position
AsmA5 ==
  { <<"a5", <<Ins("mov", <<RegOf(0), IntOp(BigLits[k])>>)>> >> : k \in 1..Len(BigLits) } \cup
  { <<"a5", <<Ins("lddw", <<RegOf(0), IntOp(BigLits[k])>>)>> >> : k \in 1..Len(BigLits) } \cup
  { <<"a5", <<Ins("ja", <<IntOp(BigLits[k])>>)>> >> : k \in 1..Len(BigLits) } \cup
  { <<"a5", <<Ins("ldxw", <<RegOf(0), Mem(Lit("", FALSE, <<1>>), SignedLit(BigLits[k]))>>)>> >> : k \in 1..Len(BigLits) } \cup
  \* ... in the immediate or offset position of every other operand shape
  { <<"a5", <<Ins(mn, <<IntOp(BigLits[k])>>)>> >> : mn \in {"call", "callx", "ldabsw", "ldabsdw"}, k \in 1..Len(BigLits) } \cup
  { <<"a5", <<Ins(mn, <<RegOf(1), IntOp(BigLits[k])>>)>> >> : mn \in {"add", "add32", "ldindw", "lsh"}, k \in 1..Len(BigLits) } \cup
  { <<"a5", <<Ins("stw", <<MemOp(1, 2, 1), IntOp(BigLits[k])>>)>> >> : k \in 1..Len(BigLits) } \cup
  { <<"a5", <<Ins("stw", <<Mem(Lit("", FALSE, <<1>>), SignedLit(BigLits[k])), IntOf(1, 1)>>)>> >> : k \in 1..Len(BigLits) } \cup
  { <<"a5", <<Ins("stxw", <<Mem(Lit("", FALSE, <<1>>), SignedLit(BigLits[k])), RegOf(2)>>)>> >> : k \in 1..Len(BigLits) } \cup
  { <<"a5", <<Ins(mn, <<RegOf(1), IntOp(BigLits[k]), IntOf(1, 1)>>)>> >> : mn \in {"jeq", "jsgt32"}, k \in 1..Len(BigLits) } \cup
  { <<"a5", <<Ins(mn, <<RegOf(1), IntOf(1, 1), IntOp(BigLits[k])>>)>> >> : mn \in {"jeq", "jne32"}, k \in 1..Len(BigLits) } \cup
  { <<"a5", <<Ins("jgt", <<RegOf(1), RegOf(2), IntOp(BigLits[k])>>)>> >> : k \in 1..Len(BigLits) } \cup
  { <<"a5", <<Ins("mov", <<Reg([BigLits[k] EXCEPT !.sign = "", !.hex = FALSE]), IntOf(1, 1)>>)>> >> : k \in {1, 5, 6, 14, 15, 16, 17} } \cup
  { <<"a5", <<Ins("lddw", <<RegOf(0), IntOp(Lit(sg, hx, [j \in 1..n |-> IF j = 1 THEN 1 ELSE 0]))>>)>> >> :
      sg \in {"", "-"}, hx \in BOOLEAN, n \in 1..25 }

AsmSeeds == (IF "asm" \in Fams THEN { <<"mn", mn>> : mn \in Mnemonics } \cup {<<"misc", "">>} ELSE {})
AsmCandsOf(s) == IF s[1] = "mn" THEN AsmA1(s[2]) \cup AsmA2(s[2]) ELSE AsmA3 \cup AsmA4 \cup AsmA5 \cup AsmA6

\* ---- disasm families ------------------------------------------------------
DisOps == Supported \cup {TAIL_CALL}
Nib == {0, 1, 9, 10, 15}
DOffs == {0, 1, -1, 127, 128, -128, -129, 32767, -32768}
DImms == {0, 1, -1, 16, 32, 64, 255, 65536, 2147483647, MinI32}
Second(m) == I(0, 0, 0, 0, m)
\* one instruction (two slots for lddw), optionally between two others
DisProg(o, d, s, f, m, ctx) ==
  LET core == IF o = LDDW THEN << I(o, d, s, f, m), Second(IF m = MinI32 THEN 2147483647 ELSE IF m = 2147483647 THEN MinI32 ELSE IF m = 0 THEN -1 ELSE m + 1) >> ELSE << I(o, d, s, f, m) >>
  IN CASE ctx = 1 -> core
       [] ctx = 2 -> << I(183, 0, 0, 0, 0) >> \o core \o << I(EXIT, 0, 0, 0, 0) >>
       [] ctx = 3 -> << I(LDDW, 1, 0, 0, 5), Second(6) >> \o core
       [] ctx = 4 -> << I(EXIT, 0, 0, 0, 0) >> \o core                   \* after an operand-less instruction
       [] ctx = 5 -> core \o core                                        \* the same instruction twice
       \* twice, the second time with another upper half (wide loads: same first slot, other second slot)
       [] ctx = 6 -> IF o = LDDW THEN core \o << I(o, d, s, f, m), Second(IF m = 5 THEN 6 ELSE 5) >>
                     ELSE core \o << I(o, d, s, f, IF m = 5 THEN 6 ELSE 5) >>
DisD1(o) ==
  { <<"d1", DisProg(o, t[1], t[2], t[3], t[4], t[5])>> :
      t \in { x \in Nib \X Nib \X DOffs \X DImms \X (1..6) :
                (o = CALL => x[2] \in {0, 1}) /\ Keep(x[1] + 3 * x[2] + 5 * (x[3] % 97) + 7 * (x[4] % 89) + 11 * x[5]) } }
DisSeeds == IF "disasm" \in Fams THEN { <<"op", o>> : o \in DisOps } ELSE {}

Seeds == AsmSeeds \cup DisSeeds
CandsOf(s) == IF s[1] = "op" THEN DisD1(s[2]) ELSE AsmCandsOf(s)

Init == \E s \in Seeds : cand = s /\ phase = "seed" /\ result = <<>>
Offer == /\ phase = "seed"
         /\ \E c \in CandsOf(cand) : cand' = c
         /\ phase' = "offered" /\ result' = <<>>
AsmResult(prog) == LET r == Assemble(prog) IN [ok |-> r.ok, bytes |-> IF r.ok THEN BytesOf(r.slots) ELSE <<>>]
HLOut(p) == [j \in 1..Len(HL(p)) |->
               LET e == HL(p)[j] IN [opc |-> e.opc, name |-> e.name, dst |-> e.dst, src |-> e.src, off |-> e.off,
                                     imm |-> e.imm, desc |-> e.desc]]
Decide == /\ phase = "offered"
          /\ result' = IF cand[1] = "d1"
                       THEN [entries |-> HLOut(cand[2]), rt |-> AsmResult([j \in 1..Len(HL(cand[2])) |-> HL(cand[2])[j].desc]),
                             expressible |-> Expressible(cand[2])]
                       ELSE AsmResult(cand[2])
          /\ phase' = "decided" /\ cand' = cand
Next == Offer \/ Decide
Spec == Init /\ [][Next]_vars

Emit == phase = "decided" =>
  PrintT("REPLAY " \o ToJson(
     IF cand[1] = "d1"
     THEN [kind |-> "disasm", fam |-> cand[1], bytes |-> BytesOf(cand[2]), exp |-> result]
     ELSE [kind |-> "asm", fam |-> cand[1], prog |-> cand[2], exp |-> result]))

\* C16 at the level of the two specifications: the round-trip law holds for every enumerated program
RoundTripOK == (phase = "offered" /\ cand[1] = "d1") => (Disassemblable(cand[2]) /\ RoundTrip(cand[2]))
\* C13 design sanity: an accepted instruction decodes back to what was written
DecodeOK == (phase = "decided" /\ cand[1] # "d1" /\ result.ok) =>
              DecodeProg(result.bytes) = Assemble(cand[2]).slots
Inv == Emit /\ RoundTripOK /\ DecodeOK
=============================================================================
