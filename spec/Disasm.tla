-------------------------------- MODULE Disasm -------------------------------
(***************************************************************************)
(* The disassembler as a function from programs to high-level entries      *)
(* (C15), and its composition with the assembler (C16).                    *)
(*                                                                         *)
(* HL(p): one entry per instruction of p (a sequence of instruction        *)
(* records; the two slots of a wide load are merged):                      *)
(*   [opc, name, dst, src, off, imm64 (a word), desc]                      *)
(* desc is the operand text as tokens in the abstract syntax of Asm.tla -  *)
(* numbers in hexadecimal as the disassembler prints them ("{:#x}" of the  *)
(* 32-bit two's-complement immediate, sign and magnitude for offsets) -    *)
(* so that Asm!AsmInsn(desc) is defined and RoundTrip can be stated.       *)
(***************************************************************************)
EXTENDS Asm

\* hexadecimal digits (most significant first, no leading zeros) of the low nb bytes of word w
RECURSIVE StripZeros(_)
StripZeros(ds) == IF Len(ds) > 1 /\ ds[1] = 0 THEN StripZeros(Tail(ds)) ELSE ds
HexDigs(w, nb) == StripZeros([k \in 1..(2*nb) |->
                    LET byte == w[nb - ((k-1) \div 2)] IN IF k % 2 = 1 THEN byte \div 16 ELSE byte % 16])

DecDigs(n) ==   \* decimal digits of a small natural
  IF n < 10 THEN <<n>> ELSE IF n < 100 THEN <<n \div 10, n % 10>> ELSE <<n \div 100, (n \div 10) % 10, n % 10>>
RegTok(n) == Reg(Lit("", FALSE, DecDigs(n)))

\* "{:#x}" of an i32 / of the merged i64
ImmTok(m)  == IntOp(Lit("", TRUE, HexDigs(FromInt(m), 4)))
Imm64Tok(w) == IntOp(Lit("", TRUE, HexDigs(w, 8)))
\* offsets: "+0x.." / "-0x.." of the magnitude
AbsOff(f) == IF f >= 0 THEN f ELSE -f
OffLit(f) == Lit(IF f >= 0 THEN "+" ELSE "-", TRUE, HexDigs(FromNat(AbsOff(f)), 2))
OffTok(f) == IntOp(OffLit(f))
MemTok(n, f) == Mem(Lit("", FALSE, DecDigs(n)), OffLit(f))

AluName(op) == CASE op = ADD -> "add" [] op = SUB -> "sub" [] op = MUL -> "mul" [] op = DIV -> "div" [] op = OR -> "or"
                 [] op = AND -> "and" [] op = LSH -> "lsh" [] op = RSH -> "rsh" [] op = NEG -> "neg" [] op = MOD -> "mod"
                 [] op = XOR -> "xor" [] op = MOV -> "mov" [] op = ARSH -> "arsh"
JmpName(op) == CASE op = J_EQ -> "jeq" [] op = J_GT -> "jgt" [] op = J_GE -> "jge" [] op = J_SET -> "jset" [] op = J_NE -> "jne"
                 [] op = J_SGT -> "jsgt" [] op = J_SGE -> "jsge" [] op = J_LT -> "jlt" [] op = J_LE -> "jle"
                 [] op = J_SLT -> "jslt" [] op = J_SLE -> "jsle"
SzName(o) == CASE SizeBits(o) = 0 -> "w" [] SizeBits(o) = 1 -> "h" [] SizeBits(o) = 2 -> "b" [] OTHER -> "dw"

\* name and operand tokens of one (first-slot) instruction; nxt = the following slot (for lddw)
NameOf(i) ==
  LET o == i.opc IN
  CASE IsLdAbs(o) -> "ldabs" \o SzName(o)
    [] IsLdInd(o) -> "ldind" \o SzName(o)
    [] o = LDDW   -> "lddw"
    [] IsLdx(o)   -> "ldx" \o SzName(o)
    [] IsSt(o)    -> "st" \o SzName(o)
    [] IsStx(o)   -> "stx" \o SzName(o)
    [] o = XADD_W -> "stxxaddw"
    [] o = XADD_DW -> "stxxadddw"
    [] IsAlu32(o) -> AluName(Op(o)) \o "32"
    [] IsAlu64(o) -> AluName(Op(o)) \o "64"
    [] o = LE -> "le"
    [] o = BE -> "be"
    [] o = JA -> "ja"
    [] IsCondJmp(o) -> JmpName(Op(o))
    [] IsCondJmp32(o) -> JmpName(Op(o)) \o "32"
    [] o = CALL -> IF i.src = 1 THEN "callx" ELSE "call"
    [] o = TAIL_CALL -> "tail_call"
    [] o = EXIT -> "exit"

\* the mnemonic the text starts with (byte swaps carry their width in the mnemonic)
LOCAL INSTANCE TLC
DescMn(i) == IF IsEndian(i.opc) THEN NameOf(i) \o ToString(i.imm) ELSE NameOf(i)

Imm64Of(i, nxt) == [k \in 1..8 |-> IF k <= 4 THEN ImmByte(i.imm, k-1) ELSE ImmByte(nxt.imm, k-5)]

DescOps(i, nxt) ==
  LET o == i.opc IN
  CASE IsLdAbs(o) -> << ImmTok(i.imm) >>
    [] IsLdInd(o) -> << RegTok(i.src), ImmTok(i.imm) >>
    [] o = LDDW   -> << RegTok(i.dst), Imm64Tok(Imm64Of(i, nxt)) >>
    [] IsLdx(o)   -> << RegTok(i.dst), MemTok(i.src, i.off) >>
    [] IsSt(o)    -> << MemTok(i.dst, i.off), ImmTok(i.imm) >>
    [] IsStx(o) \/ IsXadd(o) -> << MemTok(i.dst, i.off), RegTok(i.src) >>
    [] (IsAlu32(o) \/ IsAlu64(o)) /\ Op(o) = NEG -> << RegTok(i.dst) >>
    [] (IsAlu32(o) \/ IsAlu64(o)) /\ SrcBit(o) = 1 -> << RegTok(i.dst), RegTok(i.src) >>
    [] IsAlu32(o) \/ IsAlu64(o) -> << RegTok(i.dst), ImmTok(i.imm) >>
    [] IsEndian(o) -> << RegTok(i.dst) >>
    [] o = JA -> << OffTok(i.off) >>
    [] (IsCondJmp(o) \/ IsCondJmp32(o)) /\ SrcBit(o) = 1 -> << RegTok(i.dst), RegTok(i.src), OffTok(i.off) >>
    [] IsCondJmp(o) \/ IsCondJmp32(o) -> << RegTok(i.dst), ImmTok(i.imm), OffTok(i.off) >>
    [] o = CALL -> << ImmTok(i.imm) >>
    [] OTHER -> <<>>

\* indices of first slots, scanning from the start
RECURSIVE FirstsFrom(_, _)
FirstsFrom(p, k) == IF k > Len(p) THEN <<>> ELSE <<k>> \o FirstsFrom(p, IF p[k].opc = LDDW THEN k + 2 ELSE k + 1)

HLEntry(p, k) ==
  LET i   == p[k]
      nxt == IF i.opc = LDDW /\ k < Len(p) THEN p[k+1] ELSE I(0, 0, 0, 0, 0)
  IN [opc |-> i.opc, name |-> NameOf(i), dst |-> i.dst, src |-> i.src, off |-> i.off,
      imm |-> IF i.opc = LDDW THEN Imm64Of(i, nxt) ELSE FromInt(i.imm),
      desc |-> [mn |-> DescMn(i), ops |-> DescOps(i, nxt)]]

HL(p) == LET f == FirstsFrom(p, 1) IN [j \in 1..Len(f) |-> HLEntry(p, f[j])]

\* programs the disassembler is specified on (C15): whole instructions with supported opcodes,
\* wide loads followed by their second slot, call kinds 0 / 1
Disassemblable(p) ==
  \A j \in 1..Len(FirstsFrom(p, 1)) :
     LET k == FirstsFrom(p, 1)[j] IN
     /\ p[k].opc \in Supported \cup {TAIL_CALL}
     /\ (p[k].opc = LDDW => k < Len(p))
     /\ (p[k].opc = CALL => p[k].src \in {0, 1})

(***************************************************************************)
(* C16.  Expressible: the assembler has a mnemonic for the opcode, unused   *)
(* fields are zero, 32-bit immediates are non-negative.  For those,        *)
(* assembling the disassembler's tokens gives the program back; for any    *)
(* other program, IF the assembler accepts the tokens, the result is the   *)
(* canonical form.                                                         *)
(***************************************************************************)
HasMnemonic(i) == DescMn(i) \in Mnemonics
Expressible(p) ==
  \A j \in 1..Len(FirstsFrom(p, 1)) :
     LET k == FirstsFrom(p, 1)[j]
         i == p[k]
     IN /\ HasMnemonic(i)
        /\ (IsEndian(i.opc) \/ Canon(i) = i)
        /\ (IsEndian(i.opc) => i.src = 0 /\ i.off = 0 /\ i.imm \in {16, 32, 64})
        /\ (i.opc # LDDW => i.imm >= 0)
        /\ (i.opc = CALL => i.src \in {0, 1})
        /\ (i.opc = LDDW => k < Len(p) /\ p[k+1].opc = 0 /\ p[k+1].dst = 0 /\ p[k+1].src = 0 /\ p[k+1].off = 0)

CanonProg(p) ==
  [k \in 1..Len(p) |-> IF k > 1 /\ p[k-1].opc = LDDW /\ k - 1 \in {FirstsFrom(p, 1)[j] : j \in 1..Len(FirstsFrom(p, 1))}
                       THEN I(0, 0, 0, 0, p[k].imm) ELSE Canon(p[k])]

Reassembled(p) == Assemble([j \in 1..Len(HL(p)) |-> HL(p)[j].desc])

RoundTrip(p) ==
  LET r == Reassembled(p) IN
  /\ Expressible(p) => (r.ok /\ r.slots = p)
  /\ r.ok => r.slots = CanonProg(p)
=============================================================================
