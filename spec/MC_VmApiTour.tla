---------------------------- MODULE MC_VmApiTour ----------------------------
(***************************************************************************)
(* Transition cover of VmApi (C10, direction B): TLC prints every          *)
(* transition of the life-cycle model's state graph - source state, call,  *)
(* argument, target state.  lib/tour.py turns them into call sequences     *)
(* that take every transition at least once; the harness performs them on  *)
(* a real VM object and TraceApi validates what was observed.              *)
(*                                                                         *)
(* Guidance only resolves what VmApi leaves open (does a successful        *)
(* set_program drop compiled code? does a failed compilation?) the way     *)
(* the pinned implementation does, so that the planned walk and the real   *)
(* object stay in step.  It is NOT part of the oracle: if an               *)
(* implementation resolves these differently the recorded calls are still  *)
(* validated against the open specification, only the cover gets thinner.  *)
(***************************************************************************)
EXTENDS VmApi, Json

Guidance ==
  /\ (last'.op = "set_program" /\ last'.res = "ok") => (jit' = None /\ cl' = None)
  /\ (last'.op = "jit_compile" /\ last'.res = "err") => jit' = jit
  /\ (last'.op = "cl_compile" /\ last'.res = "err") => cl' = cl
  \* compiled code that is stale never exists under this guidance, so ExecCompiled is deterministic

EmitEdge == PrintT("EDGE " \o ToJson([src |-> view, op |-> last'.op, arg |-> last'.arg, res |-> last'.res, dst |-> view']))
Edges == Guidance /\ EmitEdge
=============================================================================
