------------------------------ MODULE MC_Helpers -----------------------------
(***************************************************************************)
(* C19: boundary cases for gather_bytes, memfrob, strcmp and               *)
(* bpf_trace_printf with the results Helpers.tla prescribes (replayed on   *)
(* rbpf::helpers), and validation of recorded sqrti / rand results         *)
(* (mode "trace": IOEnv.TRACE holds {f, args, ret} events).                *)
(***************************************************************************)
EXTENDS Helpers, TLC, Json, IOUtils, TLCExt

CONSTANTS RunMode, Seed, Rate
VARIABLES cand, phase
vars == <<cand, phase>>
Keep(h) == (h + Seed) % Rate = 0

W8(b0, b1, b2, b3, b4, b5, b6, b7) == <<b0, b1, b2, b3, b4, b5, b6, b7>>
Vals == << Zero, FromNat(1), FromNat(255), FromNat(256), W8(255,255,255,255,0,0,0,0), W8(0,0,0,0,1,0,0,0),
           W8(136,119,102,85,68,51,34,17), AllOnes, W8(0,0,0,128,0,0,0,0), W8(0,0,0,0,0,0,0,128) >>
NVals == Len(Vals)

\* 16^k - 1, 16^k, 16^k + 1 for k = 0..16 (as words)
Pow16(k) == IF k = 16 THEN Zero ELSE Shl(FromNat(1), 4 * k)          \* 16^16 wraps to 0: use 2^64-1 instead
Around16 == { Sub(Pow16(k), FromNat(1)) : k \in 0..16 } \cup { Pow16(k) : k \in 0..15 } \cup { AddN(Pow16(k), 1) : k \in 0..15 }

\* a buffer with recognisable contents
Buf(n) == [k \in 1..n |-> (37 * k + 11) % 256]
\* strings (without terminator); the harness appends NUL
Strs == << <<>>, <<97>>, <<97, 98>>, <<97, 99>>, <<98>>, <<97, 98, 99>>, <<128>>, <<255>>, <<1>>, <<127>>, <<97, 128>>, <<97, 127>>,
           <<200, 100>>, <<200, 101>>, <<255, 255, 1>>, <<255, 255, 254>> >>
\* two strings laid out one after the other, NUL-terminated: <<buf, p, q>>
Pair(i, j) == LET a == Strs[i] \o <<0>>
                  b == Strs[j] \o <<0>>
              IN << a \o b, 1, Len(a) + 1 >>

Cases ==
  { <<"gather", <<Vals[t[1]], Vals[t[2]], Vals[t[3]], Vals[t[4]], Vals[t[5]]>>>> :
      t \in { x \in (1..NVals) \X (1..NVals) \X (1..NVals) \X (1..NVals) \X (1..NVals) :
                Keep(x[1] + 3 * x[2] + 7 * x[3] + 11 * x[4] + 13 * x[5]) /\ Keep(5 * x[1] + x[2] + x[5]) } }
  \cup { <<"memfrob", <<Buf(80), p, n>>>> : p \in {1, 2, 8, 9, 16}, n \in 0..64 }
  \cup { <<"strcmp", Pair(i, j)>> : i \in 1..Len(Strs), j \in 1..Len(Strs) }
  \cup { <<"printf", <<a, b, c>>>> : a \in {x \in Around16 : Keep(LowNat(x, 2))}, b \in {Zero, AllOnes, FromNat(16)}, c \in {FromNat(15), W8(255,255,255,255,255,255,0,0)} }
  \cup { <<"printf", <<FromNat(1), a, FromNat(2)>>>> : a \in Around16 }
  \cup { <<"printf", <<FromNat(1), FromNat(2), a>>>> : a \in Around16 }
  \cup { <<"strcmpnull", <<k>>>> : k \in {1, 2, 3} }       \* first / second / both pointers null

Expected(c) ==
  CASE c[1] = "gather"  -> GatherBytes(c[2])
    [] c[1] = "memfrob" -> [once |-> Memfrob(c[2][1], c[2][2], c[2][3]),
                            twice |-> Memfrob(Memfrob(c[2][1], c[2][2], c[2][3]), c[2][2], c[2][3])]
    [] c[1] = "strcmp"  -> StrcmpFrom(c[2][1], c[2][2], c[2][3])
    [] c[1] = "printf"  -> PrintfLen(c[2][1], c[2][2], c[2][3])
    [] c[1] = "strcmpnull" -> AllOnes

\* ---- mode "cases" ----
InitCases == cand \in {<<"seed", k>> : k \in {"gather", "memfrob", "strcmp", "printf", "strcmpnull"}} /\ phase = "seed"
NextCases == phase = "seed" /\ (\E c \in {x \in Cases : x[1] = cand[2]} : cand' = c) /\ phase' = "case"
Emit == phase = "case" => PrintT("REPLAY " \o ToJson([kind |-> "helper", f |-> cand[1], args |-> cand[2], exp |-> Expected(cand)]))
\* design laws
Laws == phase = "case" =>
          /\ (cand[1] = "memfrob" => Expected(cand).twice = cand[2][1])
          /\ (cand[1] = "strcmp" => (Expected(cand) = 0) = (cand[2][2] = cand[2][3] \/
                 SubSeq(cand[2][1], 1, cand[2][3] - 1) = SubSeq(cand[2][1], cand[2][3], Len(cand[2][1]))))

\* ---- mode "trace": recorded sqrti / rand results ----
Rec == IF RunMode = "trace" THEN ndJsonDeserialize(IOEnv.TRACE) ELSE <<>>
TraceInit == cand = <<"trace", 0>> /\ phase = 1 /\ TLCSet(1, 1)
TraceNext == /\ phase <= Len(Rec)
             /\ LET e == Rec[phase] IN
                /\ e.ok          \* the call returned (did not panic)
                /\ CASE e.f = "sqrti" -> SqrtOk(e.args[1], e.ret)
                     [] e.f = "rand"  -> RandOk(e.args[1], e.args[2], e.ret)
             /\ phase' = phase + 1 /\ cand' = cand
Mark == IF RunMode = "trace" /\ phase > TLCGet(1) THEN TLCSet(1, phase) ELSE TRUE
TraceAccepted == IF RunMode # "trace" THEN TRUE
                 ELSE IF TLCGet(1) = Len(Rec) + 1 THEN PrintT(<<"TRACE-ACCEPTED", Len(Rec)>>)
                 ELSE PrintT(<<"TRACE-REJECTED", TLCGet(1), Len(Rec)>>) /\ FALSE

Init == IF RunMode = "trace" THEN TraceInit ELSE InitCases
Next == IF RunMode = "trace" THEN TraceNext ELSE NextCases
Spec == Init /\ [][Next]_vars
Inv == IF RunMode = "trace" THEN Mark ELSE (Emit /\ Laws)
=============================================================================
