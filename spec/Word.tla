-------------------------------- MODULE Word --------------------------------
(***************************************************************************)
(* Fixed-width machine words for a model checker whose integers are 32-bit *)
(* (TLC): a word is a tuple of NB limbs in base B = 2^LB, little-endian    *)
(* (w[1] is the least significant limb).  The production instance is       *)
(* NB = 8, LB = 8: a word is exactly the 8 bytes a 64-bit store writes.    *)
(*                                                                         *)
(* Every operator is written uniformly in NB and LB.  Next to it, section  *)
(* "Reference" gives the mathematical definition on naturals (the text of  *)
(* the ISA); MC_WordSmall checks them equal for ALL operands at small      *)
(* widths (NB*LB = 8), which is the argument that the 64-bit instance      *)
(* computes the arithmetic the ISA prescribes.                             *)
(*                                                                         *)
(* "Half" operations model the eBPF 32-bit sub-register: the low NB/2      *)
(* limbs.  NB must be even.                                                *)
(***************************************************************************)
EXTENDS Integers, Sequences
LOCAL INSTANCE Bitwise
LOCAL INSTANCE SequencesExt

CONSTANTS NB,      \* number of limbs (even)
          LB       \* bits per limb

B  == 2^LB         \* limb base
W  == NB * LB      \* word width in bits
HB == NB \div 2    \* limbs in a half word
HW == HB * LB      \* half-word width in bits

Limb == 0..(B-1)
Word == [1..NB -> Limb]

\* TLC keeps [i \in S |-> e] as an unevaluated closure and re-evaluates e at every
\* application; chains of word operations would then cost exponential time.  Concatenating
\* with the empty sequence makes TLC build the tuple once (no semantic content).
Tup(f) == f \o <<>>

Zero    == Tup([i \in 1..NB |-> 0])
AllOnes == Tup([i \in 1..NB |-> B-1])

(***************************************************************************)
(* Conversions from small naturals (0 <= n < 2^31).                        *)
(***************************************************************************)
FromNat(n) == Tup([i \in 1..NB |-> IF (i-1)*LB >= 31 THEN 0
                                   ELSE (n \div 2^((i-1)*LB)) % B])

IsZero(a) == \A i \in 1..NB : a[i] = 0

\* value of the low k limbs as an integer; only meaningful when it is < 2^31
RECURSIVE LowNat(_, _)
LowNat(a, k) == IF k = 0 THEN 0 ELSE a[1] + B * LowNat(Tail(a), k-1)

\* TRUE iff every limb above the k-th is zero
HighZero(a, k) == \A i \in (k+1)..NB : a[i] = 0

(***************************************************************************)
(* Limb-wise logic.                                                        *)
(***************************************************************************)
BNot(a)    == Tup([i \in 1..NB |-> B-1-a[i]])
BAnd(a, b) == Tup([i \in 1..NB |-> a[i] & b[i]])
BOr(a, b)  == Tup([i \in 1..NB |-> a[i] | b[i]])
BXor(a, b) == Tup([i \in 1..NB |-> a[i] ^^ b[i]])

(***************************************************************************)
(* Addition with carry-in, ripple carry.                                   *)
(***************************************************************************)
AddC(a, b, cin) ==
  LET c[i \in 0..NB] == IF i = 0 THEN cin ELSE (a[i] + b[i] + c[i-1]) \div B
  IN  Tup([i \in 1..NB |-> (a[i] + b[i] + c[i-1]) % B])

\* carry out of the top limb
CarryOut(a, b, cin) ==
  LET c[i \in 0..NB] == IF i = 0 THEN cin ELSE (a[i] + b[i] + c[i-1]) \div B
  IN  c[NB]

Add(a, b) == AddC(a, b, 0)
Sub(a, b) == AddC(a, BNot(b), 1)
Neg(a)    == AddC(BNot(a), Zero, 1)
AddN(a, n) == Add(a, FromNat(n))       \* 0 <= n < 2^31
SubN(a, n) == Sub(a, FromNat(n))

(***************************************************************************)
(* Comparison: -1, 0, 1.  Unsigned and two's-complement signed.            *)
(***************************************************************************)
RECURSIVE CmpFrom(_, _, _)
CmpFrom(a, b, i) == IF i = 0 THEN 0
                    ELSE IF a[i] < b[i] THEN -1
                    ELSE IF a[i] > b[i] THEN 1
                    ELSE CmpFrom(a, b, i-1)
Cmp(a, b) == CmpFrom(a, b, NB)

TopBit(a)  == a[NB] \div (B \div 2)
FlipTop(a) == [a EXCEPT ![NB] = (a[NB] + B \div 2) % B]
SCmp(a, b) == Cmp(FlipTop(a), FlipTop(b))

(***************************************************************************)
(* Multiplication modulo 2^W: column sums with carry.                      *)
(* Largest intermediate: NB*(B-1)^2 + carry < 2^31 for NB = 8, B = 256.    *)
(***************************************************************************)
RECURSIVE ColSum(_, _, _, _)
ColSum(a, b, k, i) == IF i = 0 THEN 0 ELSE a[i] * b[k+1-i] + ColSum(a, b, k, i-1)

Mul(a, b) ==
  LET s[k \in 0..NB] == IF k = 0 THEN 0 ELSE ColSum(a, b, k, k) + (s[k-1] \div B)
  IN  Tup([k \in 1..NB |-> s[k] % B])

(***************************************************************************)
(* Shifts by n bits, 0 <= n < W.                                           *)
(***************************************************************************)
LimbAt(a, i) == IF i >= 1 /\ i <= NB THEN a[i] ELSE 0

Shl(a, n) ==
  LET q == n \div LB
      r == n % LB
  IN  Tup([i \in 1..NB |-> ((LimbAt(a, i-q) * 2^r) % B) + (LimbAt(a, i-q-1) \div 2^(LB-r))])

Shr(a, n) ==
  LET q == n \div LB
      r == n % LB
  IN  Tup([i \in 1..NB |-> (LimbAt(a, i+q) \div 2^r) + ((LimbAt(a, i+q+1) * 2^(LB-r)) % B)])

\* arithmetic right shift: fill with the sign bit
Sar(a, n) == IF TopBit(a) = 0 \/ n = 0 THEN Shr(a, n)
             ELSE BOr(Shr(a, n), BNot(Shr(AllOnes, n)))

(***************************************************************************)
(* Unsigned division with remainder (b # 0): restoring, one bit at a time, *)
(* from the most significant bit of a.  Returns <<quotient, remainder>>.   *)
(***************************************************************************)
BitAt(a, i) == (a[(i \div LB) + 1] \div 2^(i % LB)) % 2          \* 0 <= i < W
SetBit(a, i) == [a EXCEPT ![(i \div LB) + 1] = @ + 2^(i % LB)]    \* bit i must be 0

\* one restoring step for bit i: acc = <<q, r>>
DivBit(a, b, acc, i) ==
  LET r  == acc[2]
      ov == TopBit(r) = 1                       \* 2r+bit does not fit: it is >= 2^W > b
      r2 == [Shl(r, 1) EXCEPT ![1] = @ + BitAt(a, i)]
  IN  IF ov \/ Cmp(r2, b) >= 0 THEN <<SetBit(acc[1], i), Sub(r2, b)>> ELSE <<acc[1], r2>>

\* index of the highest non-zero limb (0 if none): leading zero limbs are skipped
RECURSIVE TopLimb(_, _)
TopLimb(a, i) == IF i = 0 THEN 0 ELSE IF a[i] # 0 THEN i ELSE TopLimb(a, i-1)

\* FoldLeft (SequencesExt) applies the step to evaluated accumulators: a plain recursive
\* operator would pass TLC unevaluated argument expressions down all W levels.
DivMod(a, b) ==
  LET nbits == TopLimb(a, NB) * LB
      step(acc, i) == DivBit(a, b, acc, i)
  IN  FoldLeft(step, <<Zero, Zero>>, [k \in 1..nbits |-> nbits - k])
Div(a, b) == DivMod(a, b)[1]
Mod(a, b) == DivMod(a, b)[2]

(***************************************************************************)
(* Half-word (32-bit sub-register) helpers and truncations.                *)
(***************************************************************************)
LowLimbs(a, k)  == Tup([i \in 1..NB |-> IF i <= k THEN a[i] ELSE 0])       \* zero-extend low k limbs
LowHalf(a)      == LowLimbs(a, HB)
HalfTopBit(a)   == a[HB] \div (B \div 2)
SExtLimbs(a, k) == Tup([i \in 1..NB |-> IF i <= k THEN a[i]
                                        ELSE IF a[k] >= B \div 2 THEN B-1 ELSE 0])
SExtHalf(a)     == SExtLimbs(a, HB)
HighHalfOf(a, hi) == Tup([i \in 1..NB |-> IF i <= HB THEN a[i] ELSE hi[i]])   \* low of a, high of hi

\* shift amount: the operand masked to width-1 (B*B >= W for every instance used)
ShAmt(b, width) == (b[1] + B * b[2]) % width

\* reverse the low k limbs, clear the rest (byte swap when LB = 8)
SwapLimbs(a, k) == Tup([i \in 1..NB |-> IF i <= k THEN a[k+1-i] ELSE 0])

(***************************************************************************)
(* Signed 32-bit immediates (TLC ints) to sign-extended words.  Written so *)
(* that no intermediate leaves the 32-bit range (-2^31 is handled through  *)
(* ~x = -x-1).  Only used with the production instance (W >= 32).          *)
(***************************************************************************)
FromInt(s) == IF s >= 0 THEN FromNat(s) ELSE BNot(FromNat(-(s+1)))

(***************************************************************************)
(* Reference: the same operations as mathematics on naturals.  Meaningful  *)
(* only where 2^(2W) fits a TLC integer, i.e. in the small-width models.   *)
(***************************************************************************)
M == 2^W
RECURSIVE ToNatFrom(_, _)
ToNatFrom(a, i) == IF i > NB THEN 0 ELSE a[i] + B * ToNatFrom(a, i+1)
ToNat(a)  == ToNatFrom(a, 1)
OfNat(n)  == Tup([i \in 1..NB |-> (n \div B^(i-1)) % B])          \* small widths only
ToSigned(a) == IF ToNat(a) >= M \div 2 THEN ToNat(a) - M ELSE ToNat(a)

=============================================================================
