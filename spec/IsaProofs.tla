----------------------------- MODULE IsaProofs -----------------------------
(***************************************************************************)
(* TLAPS: the slot encoding of Isa.tla is injective on well-typed          *)
(* instructions - Decode(Encode(i)) = i - for ALL register nibbles, all    *)
(* 65,536 offsets and all 2^32 immediates at once (C17 checks the same per *)
(* field with TLC and by a 2^32 sweep of the implementation).              *)
(***************************************************************************)
EXTENDS Isa, TLAPS

I32 == -2147483648..2147483647
Insn32 == [opc : 0..255, dst : 0..15, src : 0..15, off : -32768..32767, imm : I32]

LEMMA OffRoundTrip == \A f \in -32768..32767 : DecodeOff(OffByte(f, 0), OffByte(f, 1)) = f
  BY DEF OffByte, DecodeOff

LEMMA RegRoundTrip == \A d \in 0..15, s \in 0..15 : (s * 16 + d) % 16 = d /\ (s * 16 + d) \div 16 = s
  OBVIOUS

LEMMA DivUnique == \A x \in Int, a \in Int, b \in 0..65535 : x = 65536 * a + b => x \div 65536 = a
  BY SMTT(60)

LEMMA Lo24 == \A r \in 0..16777215 : (r % 256) + 256 * ((r \div 256) % 256) + 65536 * ((r \div 65536) % 256) = r
  <1> TAKE r \in 0..16777215
  <1> DEFINE d == r % 256
             s == r \div 256
             c == s % 256
             a == s \div 256
  <1>1. r = 256 * s + d /\ d \in 0..255 /\ s \in 0..65535 BY SMTT(60)
  <1>2. s = 256 * a + c /\ c \in 0..255 /\ a \in 0..255 BY <1>1, SMTT(60)
  <1>3. (r % 256) + 256 * ((r \div 256) % 256) + 65536 * ((r \div 65536) % 256) = d + 256 * c + 65536 * ((r \div 65536) % 256) BY SMTT(60)
  <1> HIDE DEF d, s, c, a
  <1>4. r = 65536 * a + (256 * c + d) /\ (256 * c + d) \in 0..65535 /\ a \in Int BY <1>1, <1>2, SMTT(60)
  <1>5. r \div 65536 = a BY <1>4, DivUnique, SMTT(60)
  <1>6. (r \div 65536) % 256 = a BY <1>5, <1>2, SMTT(60)
  <1> QED BY <1>1, <1>2, <1>3, <1>4, <1>6, SMTT(60)

LEMMA DivMod24 == \A n \in 0..2147483647 : /\ n = 16777216 * (n \div 16777216) + (n % 16777216)
                                            /\ n % 16777216 \in 0..16777215
                                            /\ n \div 16777216 \in 0..127
  BY SMTT(120)

LEMMA ImmRoundTrip == \A m \in I32 : DecodeImm(ImmByte(m, 0), ImmByte(m, 1), ImmByte(m, 2), ImmByte(m, 3)) = m
  <1> TAKE m \in I32
  <1>1. CASE m >= 0
    <2> DEFINE q == m \div 16777216
               r == m % 16777216
    <2>1. m \in 0..2147483647 BY <1>1, SMTT(60) DEF I32
    <2>2. m = 16777216 * q + r /\ r \in 0..16777215 /\ q \in 0..127 BY <2>1, DivMod24, SMTT(60)
    <2>3. (r % 256) + 256 * ((r \div 256) % 256) + 65536 * ((r \div 65536) % 256) = r BY <2>2, Lo24, SMTT(60)
    <2>4. ImmByte(m, 0) = r % 256 /\ ImmByte(m, 1) = (r \div 256) % 256 /\ ImmByte(m, 2) = (r \div 65536) % 256 /\ ImmByte(m, 3) = q
      BY <1>1, SMTT(60) DEF ImmByte
    <2> HIDE DEF q, r
    <2> QED BY <2>2, <2>3, <2>4, SMTT(60) DEF DecodeImm
  <1>2. CASE m < 0
    <2> DEFINE n == -(m + 1)
               q == n \div 16777216
               r == n % 16777216
               lo == 16777215 - r
    <2>1. n \in 0..2147483647 BY <1>2, SMTT(60) DEF I32
    <2>2. n = 16777216 * q + r /\ r \in 0..16777215 /\ q \in 0..127 BY <2>1, DivMod24, SMTT(60)
    <2>3. lo \in 0..16777215 /\ lo = 16777215 - r BY <2>2, SMTT(60)
    <2>4. (lo % 256) + 256 * ((lo \div 256) % 256) + 65536 * ((lo \div 65536) % 256) = lo BY <2>3, Lo24, SMTT(60)
    <2>5a. ImmByte(m, 0) = lo % 256 BY <1>2, SMTT(60) DEF ImmByte, I32
    <2>5b. ImmByte(m, 1) = (lo \div 256) % 256 BY <1>2, SMTT(60) DEF ImmByte, I32
    <2>5c. ImmByte(m, 2) = (lo \div 65536) % 256 BY <1>2, SMTT(60) DEF ImmByte, I32
    <2>5d. ImmByte(m, 3) = 255 - q BY <1>2, SMTT(60) DEF ImmByte, I32
    <2>5. ImmByte(m, 0) = lo % 256 /\ ImmByte(m, 1) = (lo \div 256) % 256 /\ ImmByte(m, 2) = (lo \div 65536) % 256 /\ ImmByte(m, 3) = 255 - q
      BY <2>5a, <2>5b, <2>5c, <2>5d
    <2>6. m = -1 - n BY SMTT(60) DEF I32
    <2> HIDE DEF n, q, r, lo
    <2>7. DecodeImm(ImmByte(m, 0), ImmByte(m, 1), ImmByte(m, 2), ImmByte(m, 3))
            = (lo % 256) + 256 * ((lo \div 256) % 256) + 65536 * ((lo \div 65536) % 256) + 16777216 * ((255 - q) - 256)
      BY <2>2, <2>3, <2>5, SMTT(60) DEF DecodeImm
    <2>8. DecodeImm(ImmByte(m, 0), ImmByte(m, 1), ImmByte(m, 2), ImmByte(m, 3)) = lo + 16777216 * ((255 - q) - 256)
      BY <2>7, <2>4, <2>3, <2>2, SMTT(60)
    <2> QED BY <2>8, <2>2, <2>3, <2>6, SMTT(60) DEF I32
  <1> QED BY <1>1, <1>2, SMTT(60) DEF I32

THEOREM EncodeDecode == \A i \in Insn32 : Decode(Encode(i)) = i
  <1> TAKE i \in Insn32
  <1>1. DecodeOff(OffByte(i.off, 0), OffByte(i.off, 1)) = i.off BY OffRoundTrip, SMTT(60) DEF Insn32
  <1>2. (i.src * 16 + i.dst) % 16 = i.dst /\ (i.src * 16 + i.dst) \div 16 = i.src BY RegRoundTrip, SMTT(60) DEF Insn32
  <1>3. DecodeImm(ImmByte(i.imm, 0), ImmByte(i.imm, 1), ImmByte(i.imm, 2), ImmByte(i.imm, 3)) = i.imm BY ImmRoundTrip, SMTT(60) DEF Insn32
  <1>4. i = [opc |-> i.opc, dst |-> i.dst, src |-> i.src, off |-> i.off, imm |-> i.imm] BY SMTT(60) DEF Insn32
  <1> QED BY <1>1, <1>2, <1>3, <1>4, SMTT(60) DEF Decode, Encode
=============================================================================
