------------------------------- MODULE Helpers -------------------------------
(***************************************************************************)
(* The built-in helpers as functions (C19).  Memory is a byte sequence;    *)
(* pointers are 1-based positions in it (the harness maps them).           *)
(***************************************************************************)
EXTENDS Disasm

\* gather_bytes: a1<<32 | a2<<24 | a3<<16 | a4<<8 | a5, bits shifted out are lost
GatherBytes(a) == BOr(BOr(BOr(Shl(a[1], 32), Shl(a[2], 24)), BOr(Shl(a[3], 16), Shl(a[4], 8))), a[5])

\* memfrob: XOR exactly the len bytes from position p with 0x2a
LOCAL INSTANCE Bitwise
Memfrob(buf, p, len) == [k \in 1..Len(buf) |-> IF k >= p /\ k < p + len THEN buf[k] ^^ 42 ELSE buf[k]]

\* strcmp on NUL-terminated strings starting at positions p and q of buf: 0 iff equal, else the
\* absolute difference of the first differing bytes
RECURSIVE StrcmpFrom(_, _, _)
StrcmpFrom(buf, p, q) ==
  LET x == buf[p]
      y == buf[q]
  IN IF x = y /\ x # 0 THEN StrcmpFrom(buf, p + 1, q + 1)
     ELSE IF x >= y THEN x - y ELSE y - x

\* sqrti: r is an admissible result for argument x.  Exact integer square root below 2^52;
\* above, the double-precision rounding may move the result by one.
Sq(r) == Mul(r, r)
FitsHalf(r) == HighZero(r, 4)
IsISqrt(x, r) == /\ FitsHalf(r) /\ Cmp(Sq(r), x) <= 0
                 /\ LET r1 == AddN(r, 1) IN ~FitsHalf(r1) \/ Cmp(Sq(r1), x) > 0
Below2p52(x) == x[8] = 0 /\ x[7] < 16
SqrtOk(x, r) == IF Below2p52(x) THEN IsISqrt(x, r)
                ELSE IsISqrt(x, r) \/ IsISqrt(x, AddN(r, 1)) \/ (~IsZero(r) /\ IsISqrt(x, SubN(r, 1)))

\* bpf_trace_printf prints "bpf_trace_printf: 0x<a3>, 0x<a4>, 0x<a5>\n" and returns the byte count
PrintfLen(a3, a4, a5) == 29 + Len(HexDigs(a3, 8)) + Len(HexDigs(a4, 8)) + Len(HexDigs(a5, 8))

\* rand(min, max) lies in [min, max] when min < max
RandOk(mn, mx, r) == Cmp(mn, mx) < 0 => (Cmp(mn, r) <= 0 /\ Cmp(r, mx) <= 0)
=============================================================================
