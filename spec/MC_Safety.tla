------------------------------ MODULE MC_Safety -----------------------------
(***************************************************************************)
(* C05 / C06 at the design level: EVERY program of up to MaxLen slots over *)
(* an alphabet of instruction templates chosen on the verifier's rule      *)
(* boundaries is explored under the control-flow abstraction MachineCF     *)
(* (all inputs, all helper sets).  Invariant: a well-formed program never  *)
(* gets stuck.  With Dev = the deviations of the pinned commit the same    *)
(* model must produce a counterexample (negative control).                 *)
(* Each program also prints a REPLAY line with its verdict, replayed on    *)
(* the real verifier and interpreter.                                      *)
(***************************************************************************)
EXTENDS MachineCF, TLC, Json

CONSTANTS MaxLen,      \* programs of 1..MaxLen slots
          Dev,         \* deviations applied to the acceptance rule ({} = the statement of C06)
          Alphabet,    \* "full" or "core"
          EmitAll      \* print REPLAY lines

T == << I(183, 0, 0, 0, 0),        \*  1 mov64 r0, 0
        I(EXIT, 0, 0, 0, 0),       \*  2 exit
        I(JA, 0, 0, 0, 0),         \*  3 ja +0
        I(JA, 0, 0, 1, 0),         \*  4 ja +1
        I(JA, 0, 0, -2, 0),        \*  5 ja -2
        I(JA, 0, 0, -1, 0),        \*  6 ja -1 (itself)
        I(21, 0, 0, 1, 0),         \*  7 jeq r0, 0, +1
        I(21, 0, 0, -2, 0),        \*  8 jeq r0, 0, -2
        I(29, 0, 1, 0, 0),         \*  9 jeq r0, r1, +0
        I(LDDW, 1, 0, 0, 7),       \* 10 lddw r1 (first slot)
        I(0, 0, 0, 0, 0),          \* 11 second slot
        I(CALL, 0, 1, 0, 0),       \* 12 callx +0
        I(CALL, 0, 1, 0, 1),       \* 13 callx +1
        I(CALL, 0, 1, 0, -2),      \* 14 callx -2
        I(CALL, 0, 1, 0, -1),      \* 15 callx -1 (itself)
        I(CALL, 0, 0, 0, 1),       \* 16 call helper 1
        I(NEG64, 0, 0, 0, 0),      \* 17 neg64 r0
        I(LE, 0, 0, 0, 16),        \* 18 le16 r0
        I(LE, 0, 0, 0, 17),        \* 19 le17 r0 (bad width)
        I(121, 0, 10, -8, 0),      \* 20 ldxdw r0, [r10-8]
        I(123, 10, 0, -8, 0),      \* 21 stxdw [r10-8], r0
        I(183, 10, 0, 0, 0),       \* 22 mov64 r10, 0 (write to r10)
        I(TAIL_CALL, 0, 0, 0, 0),  \* 23 tail call
        I(CALL, 0, 2, 0, 0),       \* 24 call kind 2
        I(LDDW, 10, 0, 0, 7),      \* 25 lddw r10
        I(183, 0, 11, 0, 0),       \* 26 mov64 r0, 0 with src field 11
        I(255, 0, 0, 0, 0),        \* 27 unknown opcode
        I(LDDW, 11, 0, 0, 7),      \* 28 lddw r11 (no such register; the second slot's register byte is 0)
        I(165, 0, 0, 1, 0),        \* 29 jlt r0, 0, +1   (the "less than" jumps sit after call / exit in the opcode table)
        I(221, 0, 1, -2, 0),       \* 30 jsle r0, r1, -2
        I(22, 0, 0, 1, 0),         \* 31 jeq32 r0, 0, +1  (twice in a row: the second copy's target is one slot further)
        I(LE, 0, 0, 0, 48) >>      \* 32 le48 r0 (a multiple of 16 between 16 and 64 that is no width)

Core == {1, 2, 3, 4, 5, 7, 8, 10, 11, 12, 13, 14, 15, 16, 21, 25}
Idx == IF Alphabet = "full" THEN 1..Len(T) ELSE Core

Progs == UNION { [1..n -> Idx] : n \in 1..MaxLen }
ProgOf(f) == [k \in 1..Len(f) |-> Seg(1, T[f[k]])]

VARIABLES tmpl         \* the template indices of the program (for printing)
vars == <<cfvars, tmpl>>

Accepted(p) == WellFormedD(p, Dev)

Init == \E f \in Progs : tmpl = f /\ CFInit(ProgOf(f))
\* rejected programs are never executed: only accepted ones take steps
Next == Accepted(cfprog) /\ CFNext /\ UNCHANGED tmpl
Spec == Init /\ [][Next]_vars

Safe == CFNoStuck
DepthOK == Len(cfstack) <= CFMaxDepth

ProgOut(p) == [k \in 1..Len(p) |-> <<p[k].n, <<p[k].i.opc, p[k].i.dst, p[k].i.src, p[k].i.off, p[k].i.imm>>>>]
Emit == (EmitAll /\ cfpc = 0 /\ cfstack = <<>> /\ cfstatus = "run") =>
           PrintT("REPLAY " \o ToJson([kind |-> "verdict", id |-> tmpl, prog |-> ProgOut(cfprog), extra |-> 0,
                                       accept |-> WellFormed(cfprog), violated |-> Violated(cfprog),
                                       \* compile outcomes with helper sets {} and {1}: <<jit{}, jit{1}, cl{}, cl{1}>>
                                       compile |-> IF WellFormed(cfprog)
                                                   THEN << CompileOk(cfprog, {}, "jit"), CompileOk(cfprog, {1}, "jit"),
                                                           CompileOk(cfprog, {}, "cl"), CompileOk(cfprog, {1}, "cl") >>
                                                   ELSE <<>>]))
Inv == Safe /\ DepthOK /\ Emit
=============================================================================
