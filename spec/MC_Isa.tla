------------------------------- MODULE MC_Isa --------------------------------
(***************************************************************************)
(* C17: the 8-byte slot encoding.  Every field is enumerated exhaustively  *)
(* (256 opcodes, 256 register bytes, 65536 offsets, each of the 4          *)
(* immediate lanes x 256 values in 3 contexts) with the others on          *)
(* boundaries; for every slot s: Encode(Decode(s)) = s and                 *)
(* Decode(Encode(Decode(s))) = Decode(s).  Each slot is replayed through   *)
(* Insn::to_array, Insn::to_vec, get_insn at several indices and           *)
(* to_insn_vec.  Second family: every constructor of the instruction       *)
(* builder with its opcode as the ISA composes it, replayed through        *)
(* insn_builder, the encoder and (where a mnemonic exists) the assembler.  *)
(***************************************************************************)
EXTENDS Disasm, TLC, Json

CONSTANTS Fams, Seed, Rate
VARIABLES cand, phase
vars == <<cand, phase>>
Keep(h) == (h + Seed) % Rate = 0
MinI32 == -2147483647 - 1

Ctx == << <<0, 0, 0, 0, 0, 0, 0, 0>>, <<255, 255, 255, 255, 255, 255, 255, 255>>, <<149, 161, 90, 165, 120, 86, 52, 18>> >>
With(s, k, v) == [s EXCEPT ![k] = v]

\* slots: vary one byte position (or the two offset bytes together) over all values, in each context
SlotsByte(k) == { <<"enc", With(Ctx[c], k, v)>> : c \in 1..3, v \in 0..255 }
SlotsOff(c)  == { <<"enc", [Ctx[c] EXCEPT ![3] = lo, ![4] = hi]>> : lo \in {x \in 0..255 : Keep(x)}, hi \in 0..255 }

\* builder constructors.  <<"b", ctor, a, b2, c2, dst, src, off, imm>> with the opcode the ISA gives:
\*   "alu"  a = operation, b2 = source bit, c2 = class (ALU64 / ALU)
\*   "swap" a = LE / BE                      "load" / "ldabs" / "ldind" / "ldx" / "st" / "stx": a = size bits
\*   "ja"   "jcc" (a = condition, b2 = source bit)   "call"   "exit"
BOpc(t) ==
  CASE t[2] = "alu"   -> 16 * t[3] + 8 * t[4] + t[5]
    [] t[2] = "swap"  -> t[3]
    [] t[2] = "load"  -> 0 + t[3]            \* BPF_LD | BPF_IMM | size
    [] t[2] = "ldabs" -> 32 + t[3]
    [] t[2] = "ldind" -> 64 + t[3]
    [] t[2] = "ldx"   -> 97 + t[3]
    [] t[2] = "st"    -> 98 + t[3]
    [] t[2] = "stx"   -> 99 + t[3]
    [] t[2] = "ja"    -> JA
    [] t[2] = "jcc"   -> 16 * t[3] + 8 * t[4] + CLS_JMP
    [] t[2] = "call"  -> CALL
    [] t[2] = "exit"  -> EXIT
BRegs == {0, 1, 9, 10, 15}
BOffs == {0, 1, -1, 32767, -32768}
BImms == {0, 1, -1, 16, 2147483647, MinI32, 305419896}
BFields == { f \in BRegs \X BRegs \X BOffs \X BImms : Keep(f[1] + 3 * f[2] + 5 * (f[3] % 97) + 7 * (f[4] % 89)) }
BCtors ==
  { <<"alu", x[1], x[2], x[3]>> : x \in { y \in (0..12) \X {0, 1} \X {CLS_ALU64, CLS_ALU} : y[1] = NEG => y[2] = 0 } } \cup
  { <<"swap", e, 0, 0>> : e \in {LE, BE} } \cup
  { <<k, sz, 0, 0>> : k \in {"load", "ldabs", "ldind", "ldx", "st", "stx"}, sz \in {0, 8, 16, 24} } \cup
  { <<"ja", 0, 0, 0>>, <<"call", 0, 0, 0>>, <<"exit", 0, 0, 0>> } \cup
  { <<"jcc", c, sb, 0>> : c \in CondOps, sb \in {0, 1} }
BuilderOf(c) == { <<"b", c[1], c[2], c[3], c[4], f[1], f[2], f[3], f[4]>> : f \in BFields }

Seeds == (IF "enc" \in Fams THEN { <<"byte", k>> : k \in {1, 2, 5, 6, 7, 8} } \cup { <<"off", c>> : c \in 1..3 } ELSE {})
         \cup (IF "builder" \in Fams THEN { <<"ctor", c>> : c \in BCtors } ELSE {})
CandsOf(s) == IF s[1] = "byte" THEN SlotsByte(s[2]) ELSE IF s[1] = "off" THEN SlotsOff(s[2]) ELSE BuilderOf(s[2])

Init == \E s \in Seeds : cand = s /\ phase = "seed"
Next == phase = "seed" /\ (\E c \in CandsOf(cand) : cand' = c) /\ phase' = "case"
Spec == Init /\ [][Next]_vars

BInsn(t) == I(BOpc(t), t[6], t[7], t[8], t[9])
\* text of a built instruction when the assembler has a mnemonic for it and it is canonical
BText(t) == LET i == BInsn(t)
                ok == i.opc \in Supported /\ i.opc # LDDW /\ HasMnemonic(i) /\ Canon(i) = i /\ i.imm >= 0
                      /\ (IsEndian(i.opc) => i.imm \in {16, 32, 64}) /\ (i.opc = CALL => i.src \in {0, 1})
            IN IF ok THEN << [mn |-> DescMn(i), ops |-> DescOps(i, I(0,0,0,0,0))] >> ELSE <<>>

InverseOK == (phase = "case" /\ cand[1] = "enc") =>
               LET s == cand[2]
                   i == Decode(s)
               IN /\ Encode(i) = s
                  /\ Decode(Encode(i)) = i
                  /\ i.opc \in 0..255 /\ i.dst \in 0..15 /\ i.src \in 0..15
                  /\ i.off \in -32768..32767 /\ i.imm >= MinI32 /\ i.imm <= 2147483647
\* the assembler's specification agrees with the encoder on built instructions it can express
BuilderAsmOK == (phase = "case" /\ cand[1] = "b" /\ BText(cand) # <<>>) =>
                  LET r == Assemble(BText(cand)) IN r.ok /\ r.slots = << BInsn(cand) >>

Emit == phase = "case" =>
  PrintT("REPLAY " \o ToJson(
    IF cand[1] = "enc"
    THEN LET i == Decode(cand[2]) IN [kind |-> "enc", bytes |-> cand[2], insn |-> <<i.opc, i.dst, i.src, i.off, i.imm>>]
    ELSE LET i == BInsn(cand) IN [kind |-> "builder", ctor |-> <<cand[2], cand[3], cand[4], cand[5]>>,
                                   insn |-> <<i.opc, i.dst, i.src, i.off, i.imm>>, bytes |-> Encode(i), text |-> BText(cand)]))
Inv == InverseOK /\ BuilderAsmOK /\ Emit
=============================================================================
