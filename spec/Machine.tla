------------------------------ MODULE Machine -------------------------------
(***************************************************************************)
(* The abstract eBPF virtual machine that rbpf implements: registers,      *)
(* memory regions, call frames, helper calls, every opcode.  One action    *)
(* per instruction class.  Written from the ISA and the statements of      *)
(* C01, C02, C05, C07, C08, C09, C18 - not transcribed from the            *)
(* interpreter; where the pinned code and the statements differ, this      *)
(* module follows the statements.                                          *)
(*                                                                         *)
(* Production word instance only: NB = 8, LB = 8 (a limb is a byte).       *)
(*                                                                         *)
(* The environment of one execution is the variable env, which never       *)
(* changes after Init (it is a variable only so that every case / every    *)
(* recorded run can have its own):                                         *)
(*   env.prog     program as segments (Verifier.tla)                       *)
(*   env.base     <<pkt, mbuf, stack, allow_1, ...>> base address words    *)
(*   env.helpers  set of registered helper ids (naturals < 2^32 do not fit *)
(*                TLC integers: ids are signed 32-bit immediates, i.e. the *)
(*                imm field that selects them)                             *)
(*   env.fsz      frame sizes: [dflt |-> n, tab |-> <<[pc, size]...>>]     *)
(*   env.budget   instruction budget (0 = unlimited)                       *)
(*   env.dev      keys of known-finding deviations to reproduce (normally   *)
(*                empty; see DESIGN.md 7.4)                                 *)
(* Region 1 is packet data, 2 the metadata buffer, 3 the 512-byte stack,   *)
(* 4.. registered allowed ranges.  A region's length is Len(mem[r]); an    *)
(* absent / empty buffer is a region of length 0.                          *)
(***************************************************************************)
EXTENDS Alu, Verifier, TLC

ASSUME NB = 8 /\ LB = 8

VARIABLES env, pc, reg, rt, mem, sw, frames, curFn, status, hlog, defd, steps
mvars == <<env, pc, reg, rt, mem, sw, frames, curFn, status, hlog, defd, steps>>

R_PKT == 1  R_MBUF == 2  R_STACK == 3
StackSize == 512
MaxDepth  == 8

(***************************************************************************)
(* Taints (C01/C03/C04 "outside the claim").  Every register carries one:  *)
(*   "c"  clean: a value determined by program and input                   *)
(*   "s"  a pointer into the stack (stack base + clean offset)             *)
(*   "m"  a pointer into an internally allocated metadata buffer           *)
(*   "u"  undefined: never written, clobbered by a helper, or derived from *)
(*        a raw address in a way that exposes it                           *)
(* defd becomes FALSE as soon as the run's observable outcome (branches    *)
(* taken, bytes stored to packet / metadata / allowed memory, accesses     *)
(* performed, returned value) depends on a non-clean value.                *)
(***************************************************************************)
IsPtrT(t) == t \in {"s", "m"}

TaintAlu(op, full, td, ts) ==
  IF op = MOV THEN (IF full THEN ts ELSE IF ts = "c" THEN "c" ELSE "u")
  ELSE IF op = NEG THEN (IF td = "c" THEN "c" ELSE "u")
  ELSE IF td = "c" /\ ts = "c" THEN "c"
  ELSE IF ~full THEN "u"
  ELSE IF op = ADD /\ IsPtrT(td) /\ ts = "c" THEN td
  ELSE IF op = ADD /\ td = "c" /\ IsPtrT(ts) THEN ts
  ELSE IF op = SUB /\ IsPtrT(td) /\ ts = "c" THEN td
  ELSE IF op = SUB /\ IsPtrT(td) /\ ts = td THEN "c"
  ELSE "u"

\* is a comparison of operands with these taints determined by program and input?
TaintCondOK(op, full, td, ts) ==
  \/ td = "c" /\ ts = "c"
  \/ full /\ IsPtrT(td) /\ ts = td /\ op # J_SET

(***************************************************************************)
(* Programs and instruction fetch.                                         *)
(***************************************************************************)
Prog  == env.prog
NInsn == PLen(Prog)
Cur   == At(Prog, pc)                       \* only evaluated when InProg(Prog, pc)

PcValid == InProg(Prog, pc) /\ RealAt(Prog, pc)

ImmWord(i) == FromInt(i.imm)                 \* sign-extended to 64 bits
OffWord(i) == FromInt(i.off)
\* immediate zero-extended from 32 bits (packet-load displacement, lddw halves)
ImmZ(i) == LowHalf(FromInt(i.imm))

(***************************************************************************)
(* Memory.                                                                 *)
(***************************************************************************)
Regions == 1..Len(mem)
RLen(r) == Len(mem[r])

\* offset of addr inside region r if [addr, addr+len) lies wholly inside it, else -1.
\* d = addr - base (mod 2^64) must be small and d + len <= length: this also refuses
\* addresses below the base and any address whose end wraps around.
OffIn(r, addr, len) ==
  LET d == Sub(addr, env.base[r]) IN
  IF HighZero(d, 3) /\ LowNat(d, 3) + len <= RLen(r) THEN LowNat(d, 3) ELSE -1

Allowed(addr, len) == \E r \in Regions : OffIn(r, addr, len) >= 0
RegionOf(addr, len) == CHOOSE r \in Regions : OffIn(r, addr, len) >= 0

ReadBytes(r, off, len) == LowLimbs([k \in 1..NB |-> IF k <= len THEN mem[r][off+k] ELSE 0], len)

WriteBytes(m, r, off, len, val) ==
  [m EXCEPT ![r] = [k \in 1..Len(@) |-> IF k > off /\ k <= off + len THEN val[k-off] ELSE @[k]]]

Aligned(addr, len) == addr[1] % len = 0          \* len in {1,2,4,8} divides 256

(***************************************************************************)
(* Frame sizes (C07).                                                      *)
(***************************************************************************)
RECURSIVE TabLookup(_, _, _)
TabLookup(tab, f, k) == IF k > Len(tab) THEN -1
                        ELSE IF tab[k][1] = f THEN tab[k][2] ELSE TabLookup(tab, f, k+1)
\* Named deviation (known finding "jit_r10"): the x86-64 JIT does not lower r10 on a local call -
\* caller and callee share one frame - and knows nothing about frame-size calculators.
Dev_JitSharedFrame == "jit_r10" \in env.dev
FrameSize(f) == IF Dev_JitSharedFrame THEN 0
                ELSE LET v == TabLookup(env.fsz.tab, f, 1) IN IF v >= 0 THEN v ELSE env.fsz.dflt

(***************************************************************************)
(* Terminal statuses.                                                      *)
(*   ok     returned a value (status.val)                                  *)
(*   err    returned an error of class status.class                        *)
(*   stuck  no instruction semantics applies: the abstract counterpart of  *)
(*          a crash (C05: must be unreachable for well-formed programs)    *)
(***************************************************************************)
Running   == status.k = "run"
StErr(c)  == [k |-> "err", class |-> c, val |-> Zero]
StStuck(c) == [k |-> "stuck", class |-> c, val |-> Zero]

Halt(st) == /\ status' = st
            /\ steps' = steps + 1
            /\ UNCHANGED <<env, pc, reg, rt, mem, sw, frames, curFn, hlog, defd>>

\* An access refused because its address lies in no region.  Through a pointer into the buffer the
\* fixed-metadata VM allocates itself (taint "m": its base here is fictitious) the refusal is only
\* what happens when nothing else lies there: that buffer is a heap neighbour of the interpreter's
\* stack, so an address beyond its end may fall into the stack and be served.  Such a run depends
\* on raw addresses and is outside every claim (defd); the error is still the specified outcome
\* when the address lies in no region.
OobHalt(ta) == /\ status' = StErr("oob")
               /\ steps' = steps + 1
               /\ defd' = (defd /\ ta # "m")
               /\ UNCHANGED <<env, pc, reg, rt, mem, sw, frames, curFn, hlog>>

SetReg(d, v, t) == /\ reg' = [reg EXCEPT ![d] = v]
                   /\ rt'  = [rt  EXCEPT ![d] = t]

\* The interpreter decides which function a frame belongs to - and with it the frame's size (C07) -
\* when it REACHES a function entry (pc 0 or the target of some local call), however it got
\* there: by a call, a jump or falling through.
FnAt(np, cur) == IF np \in env.entries THEN np ELSE cur
Advance(n) == pc' = pc + n /\ steps' = steps + 1 /\ curFn' = FnAt(pc + n, curFn)

(***************************************************************************)
(* ALU (C01).                                                              *)
(***************************************************************************)
ExecAlu(i) ==
  LET full == Cls(i.opc) = CLS_ALU64
      op   == Op(i.opc)
      b    == IF SrcBit(i.opc) = 1 THEN reg[i.src] ELSE ImmWord(i)
      tb   == IF SrcBit(i.opc) = 1 THEN rt[i.src] ELSE "c"
  IN /\ \E v \in AluResults(op, full, reg[i.dst], b) :
           SetReg(i.dst, v, TaintAlu(op, full, rt[i.dst], tb))
     /\ Advance(1)
     /\ UNCHANGED <<env, mem, sw, frames, status, hlog, defd>>

ExecEndian(i) ==
  LET k == i.imm \div 8
      v == IF i.opc = LE THEN EndianLE(reg[i.dst], k) ELSE EndianBE(reg[i.dst], k)
  IN /\ SetReg(i.dst, v, IF rt[i.dst] = "c" THEN "c" ELSE "u")
     /\ Advance(1)
     /\ UNCHANGED <<env, mem, sw, frames, status, hlog, defd>>

ExecLddw(i) ==
  LET nxt == At(Prog, pc + 1)
      v   == [k \in 1..NB |-> IF k <= 4 THEN ImmByte(i.imm, k-1) ELSE ImmByte(nxt.imm, k-5)]
  IN /\ SetReg(i.dst, v, "c")
     /\ Advance(2)
     /\ UNCHANGED <<env, mem, sw, frames, status, hlog, defd>>

(***************************************************************************)
(* Loads, stores, atomic add (C01, C02, C18).  An access is performed iff  *)
(* all of its bytes lie inside one region; otherwise the run ends with an  *)
(* error and memory is unchanged.                                          *)
(***************************************************************************)
\* taint of a value loaded from region r
LoadTaint(r, off, len) ==
  IF r = R_STACK THEN (IF \A k \in off..(off+len-1) : k \in sw THEN "c" ELSE "u") ELSE "c"

DoLoad(d, addr, len, ta) ==
  IF ~Allowed(addr, len) THEN OobHalt(ta)
  ELSE LET r   == RegionOf(addr, len)
           off == OffIn(r, addr, len)
       IN /\ SetReg(d, ReadBytes(r, off, len), LoadTaint(r, off, len))
          /\ defd' = (defd /\ ta # "u")
          /\ Advance(1)
          /\ UNCHANGED <<env, mem, sw, frames, status, hlog>>

ExecLdx(i) == DoLoad(i.dst, Add(reg[i.src], OffWord(i)), Width(i.opc), rt[i.src])

\* packet loads address the packet data: pkt base + imm (zero-extended) [+ src]; result in r0
ExecLdAbs(i) == DoLoad(0, Add(env.base[R_PKT], ImmZ(i)), Width(i.opc), "c")
ExecLdInd(i) == DoLoad(0, Add(Add(env.base[R_PKT], reg[i.src]), ImmZ(i)), Width(i.opc),
                       IF rt[i.src] = "c" THEN "c" ELSE "u")

DoStore(addr, len, val, ta, tv) ==
  IF ~Allowed(addr, len) THEN OobHalt(ta)
  ELSE LET r   == RegionOf(addr, len)
           off == OffIn(r, addr, len)
       IN /\ mem' = WriteBytes(mem, r, off, len, val)
          /\ sw' = IF r # R_STACK THEN sw
                   ELSE IF tv = "c" THEN sw \cup (off..(off+len-1))
                   ELSE sw \ (off..(off+len-1))
          /\ defd' = (defd /\ ta # "u" /\ (r = R_STACK \/ tv = "c"))
          /\ Advance(1)
          /\ UNCHANGED <<env, reg, rt, frames, status, hlog>>

ExecSt(i)  == DoStore(Add(reg[i.dst], OffWord(i)), Width(i.opc), ImmWord(i), rt[i.dst], "c")
ExecStx(i) == DoStore(Add(reg[i.dst], OffWord(i)), Width(i.opc), reg[i.src], rt[i.dst], rt[i.src])

\* atomic add: one indivisible read-modify-write of the naturally aligned word (C18)
ExecXadd(i) ==
  LET len  == Width(i.opc)
      addr == Add(reg[i.dst], OffWord(i))
  IN IF ~Allowed(addr, len) THEN OobHalt(rt[i.dst])
     ELSE IF ~Aligned(addr, len) THEN Halt(StErr("unaligned"))
     ELSE LET r   == RegionOf(addr, len)
              off == OffIn(r, addr, len)
              old == ReadBytes(r, off, len)
              new == Add(old, LowLimbs(reg[i.src], len))
              tv  == IF rt[i.src] = "c" /\ LoadTaint(r, off, len) = "c" THEN "c" ELSE "u"
          IN /\ mem' = WriteBytes(mem, r, off, len, new)
             /\ sw' = IF r # R_STACK THEN sw
                      ELSE IF tv = "c" THEN sw ELSE sw \ (off..(off+len-1))
             /\ defd' = (defd /\ rt[i.dst] # "u" /\ (r = R_STACK \/ tv = "c"))
             /\ Advance(1)
             /\ UNCHANGED <<env, reg, rt, frames, status, hlog>>

(***************************************************************************)
(* Branches (C01): target pc + 1 + off at any distance.                    *)
(***************************************************************************)
ExecJa(i) == /\ Advance(1 + i.off)
             /\ UNCHANGED <<env, reg, rt, mem, sw, frames, status, hlog, defd>>

\* Named deviation (known finding, enabled only when its key is in env.dev): the pinned
\* interpreter zero-extends the immediate of the 64-bit equality / unsigned comparisons.
Dev_JmpImmZeroExt(i, D) ==
  /\ "jmp_imm_zext" \in D
  /\ Cls(i.opc) = CLS_JMP /\ SrcBit(i.opc) = 0
  /\ Op(i.opc) \in {J_EQ, J_NE, J_GT, J_GE, J_LT, J_LE}

ExecCondJmp(i, D) ==
  LET full == Cls(i.opc) = CLS_JMP
      op   == Op(i.opc)
      b    == IF SrcBit(i.opc) = 1 THEN reg[i.src]
              ELSE IF Dev_JmpImmZeroExt(i, D) THEN ImmZ(i) ELSE ImmWord(i)
      tb   == IF SrcBit(i.opc) = 1 THEN rt[i.src] ELSE "c"
  IN /\ Advance(IF Cond(op, full, reg[i.dst], b) THEN 1 + i.off ELSE 1)
     /\ defd' = (defd /\ TaintCondOK(op, full, rt[i.dst], tb))
     /\ UNCHANGED <<env, reg, rt, mem, sw, frames, status, hlog>>

(***************************************************************************)
(* Helper calls (C08).  hr is the environment's answer: the helper's       *)
(* return value and the contents of r1-r5 afterwards (the ABI lets the     *)
(* helper clobber them; they are undefined from then on).                  *)
(***************************************************************************)
HelperArgs == <<reg[1], reg[2], reg[3], reg[4], reg[5]>>

\* What a helper did, as the environment reports it (hr): the value it returned, what it left in
\* r1-r5, and the bytes it wrote (hr.wr: a sequence of [addr, bytes]; helpers receive pointers and
\* may write through them - memfrob does).  Writes that lie inside one region of the VM's memory
\* are applied in order and are visible to every later load; a helper that writes anywhere else is
\* outside the model (the run's outcome is then not claimed).
HelperWritesOK(wr) == \A k \in 1..Len(wr) : Len(wr[k].bytes) > 0 /\ Allowed(wr[k].addr, Len(wr[k].bytes))
ApplyWrite(m, w) ==
  LET r   == RegionOf(w.addr, Len(w.bytes))
      off == OffIn(r, w.addr, Len(w.bytes))
  IN [m EXCEPT ![r] = [k \in 1..Len(@) |-> IF k > off /\ k <= off + Len(w.bytes) THEN w.bytes[k - off] ELSE @[k]]]
RECURSIVE ApplyWrites(_, _, _)
ApplyWrites(m, wr, k) == IF k > Len(wr) THEN m ELSE ApplyWrites(ApplyWrite(m, wr[k]), wr, k + 1)
StackOffsWritten(wr) ==
  UNION { LET n == Len(wr[k].bytes) IN
          IF OffIn(R_STACK, wr[k].addr, n) >= 0 THEN (OffIn(R_STACK, wr[k].addr, n))..(OffIn(R_STACK, wr[k].addr, n) + n - 1) ELSE {}
          : k \in 1..Len(wr) }

ExecCallHelper(i, hr) ==
  IF i.imm \notin env.helpers THEN Halt(StErr("nohelper"))
  ELSE /\ hlog' = Append(hlog, [id |-> i.imm, args |-> HelperArgs])
       /\ reg' = [r \in 0..10 |-> IF r = 0 THEN hr.ret
                                   ELSE IF r \in 1..5 THEN hr.clob[r] ELSE reg[r]]
       /\ rt'  = [r \in 0..10 |-> IF r = 0 THEN "c" ELSE IF r \in 1..5 THEN "u" ELSE rt[r]]
       /\ IF HelperWritesOK(hr.wr)
          THEN /\ mem' = ApplyWrites(mem, hr.wr, 1)
               /\ sw' = sw \cup StackOffsWritten(hr.wr)
               /\ defd' = (defd /\ \A r \in 1..5 : rt[r] = "c")
          ELSE /\ defd' = FALSE
               /\ UNCHANGED <<mem, sw>>
       /\ Advance(1)
       /\ UNCHANGED <<env, frames, status>>

(***************************************************************************)
(* Local calls and returns (C07).                                          *)
(***************************************************************************)
ExecCallLocal(i) ==
  IF Len(frames) >= MaxDepth THEN Halt(StErr("depth"))
  ELSE LET size == FrameSize(curFn) IN
       /\ frames' = Append(frames, [ret |-> pc + 1, fn |-> curFn, size |-> size,
                                    saved  |-> [r \in 6..9 |-> reg[r]],
                                    savedt |-> [r \in 6..9 |-> rt[r]]])
       /\ reg' = [reg EXCEPT ![10] = SubN(reg[10], size)]
       /\ Advance(1 + i.imm)                  \* (the target is a function entry: curFn' = the target)
       /\ UNCHANGED <<env, rt, mem, sw, status, hlog, defd>>

ExecExit ==
  IF frames = <<>> THEN
       /\ status' = [k |-> "ok", class |-> "", val |-> reg[0]]
       /\ defd' = (defd /\ rt[0] = "c")
       /\ steps' = steps + 1
       /\ UNCHANGED <<env, pc, reg, rt, mem, sw, frames, curFn, hlog>>
  ELSE LET f == frames[Len(frames)] IN
       /\ frames' = SubSeq(frames, 1, Len(frames) - 1)
       /\ reg' = [r \in 0..10 |-> IF r \in 6..9 THEN f.saved[r]
                                   ELSE IF r = 10 THEN AddN(reg[10], f.size) ELSE reg[r]]
       /\ rt'  = [r \in 0..10 |-> IF r \in 6..9 THEN f.savedt[r] ELSE rt[r]]
       /\ curFn' = FnAt(f.ret, f.fn)
       /\ pc' = f.ret
       /\ steps' = steps + 1
       /\ UNCHANGED <<env, mem, sw, status, hlog, defd>>

(***************************************************************************)
(* One step.  A state in which no instruction semantics applies is stuck:  *)
(* pc outside the program or on the second slot of a wide load, an         *)
(* unsupported opcode, a register index above 10, a byte-swap width other  *)
(* than 16/32/64, a wide load without its second slot.                     *)
(***************************************************************************)
RegsOK(i) == (UsesDst(i.opc) => i.dst <= 10) /\ (UsesSrc(i.opc) /\ i.opc # CALL => i.src <= 10)

\* D: the named deviations in force for this step (normally env.dev, i.e. none)
StepD(hr, D) ==
  /\ Running
  /\ IF env.budget > 0 /\ steps >= env.budget THEN Halt(StErr("budget"))
     ELSE IF ~InProg(Prog, pc) THEN Halt(StStuck("pc_outside"))
     ELSE IF ~RealAt(Prog, pc) THEN Halt(StStuck("second_slot"))
     ELSE LET i == Cur
              o == i.opc
          IN IF o \notin Supported THEN Halt(StStuck("opcode"))
             ELSE IF ~RegsOK(i) THEN Halt(StStuck("register"))
             ELSE IF IsAlu32(o) \/ IsAlu64(o) THEN ExecAlu(i)
             ELSE IF IsEndian(o) THEN
                     (IF i.imm \in {16, 32, 64} THEN ExecEndian(i) ELSE Halt(StStuck("endian")))
             ELSE IF o = LDDW THEN
                     (IF InProg(Prog, pc + 1) THEN ExecLddw(i) ELSE Halt(StStuck("lddw")))
             ELSE IF IsLdx(o) THEN ExecLdx(i)
             ELSE IF IsLdAbs(o) THEN ExecLdAbs(i)
             ELSE IF IsLdInd(o) THEN ExecLdInd(i)
             ELSE IF IsSt(o) THEN ExecSt(i)
             ELSE IF IsStx(o) THEN ExecStx(i)
             ELSE IF IsXadd(o) THEN ExecXadd(i)
             ELSE IF o = JA THEN ExecJa(i)
             ELSE IF IsCondJmp(o) \/ IsCondJmp32(o) THEN ExecCondJmp(i, D)
             ELSE IF o = CALL THEN
                     (IF i.src = 0 THEN ExecCallHelper(i, hr)
                      ELSE IF i.src = 1 THEN ExecCallLocal(i)
                      ELSE Halt(StErr("calltype")))
             ELSE IF o = EXIT THEN ExecExit
             ELSE Halt(StStuck("opcode"))

Step(hr) == StepD(hr, env.dev)

(***************************************************************************)
(* Initial state of an execution (C09).  The caller supplies the           *)
(* environment record e, the initial memory image m and r1.                *)
(***************************************************************************)
InitRegs(r1, t1) == [r \in 0..10 |-> IF r = 1 THEN r1 ELSE Zero]

InitWith(e, m, r1, t1) ==
  /\ env = e
  /\ mem = m
  /\ pc = 0
  /\ reg = [r \in 0..10 |-> IF r = 1 THEN r1
                             ELSE IF r = 10 THEN AddN(e.base[R_STACK], StackSize) ELSE Zero]
  /\ rt  = [r \in 0..10 |-> IF r = 1 THEN t1 ELSE IF r = 10 THEN "s" ELSE "u"]
  /\ sw = {}
  /\ frames = <<>>
  /\ curFn = 0
  /\ status = [k |-> "run", class |-> "", val |-> Zero]
  /\ hlog = <<>>
  /\ defd = TRUE
  /\ steps = 0

(***************************************************************************)
(* Invariants.                                                             *)
(***************************************************************************)
NoStuck == status.k # "stuck"

DepthBound == Len(frames) <= MaxDepth

\* r10 stays at (stack top - sum of the active frames' sizes): frames never alias
RECURSIVE SumSizes(_, _)
SumSizes(fs, k) == IF k = 0 THEN 0 ELSE fs[k].size + SumSizes(fs, k-1)
FramePointerOK ==
  rt[10] = "s" => reg[10] = SubN(AddN(env.base[R_STACK], StackSize), SumSizes(frames, Len(frames)))

\* region lengths never change; bytes stay bytes
MemShapeOK == /\ Len(mem) = Len(env.base)
              /\ \A r \in Regions : \A k \in 1..RLen(r) : mem[r][k] \in 0..255
=============================================================================
