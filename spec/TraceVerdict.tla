----------------------------- MODULE TraceVerdict ----------------------------
(***************************************************************************)
(* Trace validation of verifier verdicts (C06, direction A): every call of *)
(* the default verifier made while /repo's own tests ran (hook H4) - the   *)
(* byte string it was given and whether it accepted - must be the verdict  *)
(* of Verifier!Verdict.                                                    *)
(* Event: {prog (run-length segments of the whole slots), nbytes, accept}  *)
(***************************************************************************)
EXTENDS Verifier, Json, IOUtils, TLC, TLCExt

Rec == ndJsonDeserialize(IOEnv.TRACE)
N == Len(Rec)
VARIABLE l

SegsOf(p) == [k \in 1..Len(p) |-> Seg(p[k][1], I(p[k][2][1], p[k][2][2], p[k][2][3], p[k][2][4], p[k][2][5]))]

Check ==
  /\ l <= N
  /\ LET e == Rec[l] IN e.accept = Verdict(e.nbytes, SegsOf(e.prog))
  /\ l' = l + 1

TraceInit == l = 1 /\ TLCSet(1, 1)
TraceSpec == TraceInit /\ [][Check]_l
Mark == IF l > TLCGet(1) THEN TLCSet(1, l) ELSE TRUE
TraceAccepted == IF TLCGet(1) = N + 1 THEN PrintT(<<"TRACE-ACCEPTED", N>>)
                 ELSE PrintT(<<"TRACE-REJECTED", TLCGet(1), N>>) /\ FALSE
=============================================================================
