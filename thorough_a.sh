#!/bin/bash
THOROUGH_ORDER="C11 C05 C20 C01 C03" exec ./thorough_all.sh
